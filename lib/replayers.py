"""Replay of a verifier witness on the REAL code (public API of /repo, built into
/verif/replay with --cfg roto_verif), always in a child process.  A replayer returns a dict
   {replayer, input, command(s), outcome, confirms_violation: bool|None}
and never raises into the caller.  `./check <PID> --replay <file>` re-runs the recorded commands."""
import json
import os
import re
import subprocess
import sys

import vf

REPLAY_DIR = os.path.join(vf.VERIF, "replay")
REPLAY_TARGET = os.path.join(vf.CACHE, "replay-target")
REPLAY_BIN = os.path.join(REPLAY_TARGET, "release", "verif_replay")
SCRIPTS = os.path.join(vf.CACHE, "replay-scripts")


def build():
    """(re)build the replay crate against /repo's current working tree"""
    env = vf.env_offline()
    env["RUSTFLAGS"] = "--cfg roto_verif"
    env["CARGO_TARGET_DIR"] = REPLAY_TARGET
    lock = os.path.join(vf.REPO, "Cargo.lock")
    if os.path.exists(lock):
        import shutil
        shutil.copy(lock, os.path.join(REPLAY_DIR, "Cargo.lock"))
    rc, out, _ = vf.run(["cargo", "build", "--release", "--offline"], cwd=REPLAY_DIR, timeout=1800, env=env)
    if rc != 0:
        return "replay crate does not build against the current tree:\n" + out[-1500:]
    return None


def child(args, timeout=20):
    try:
        p = subprocess.run([REPLAY_BIN] + args, capture_output=True, text=True, timeout=timeout)
        sig = -p.returncode if p.returncode < 0 else (p.returncode - 128 if p.returncode > 128 else None)
        return {"cmd": " ".join([REPLAY_BIN] + args), "exit": p.returncode, "signal": sig,
                "stdout": p.stdout[-2000:], "stderr": p.stderr[-2000:], "timed_out": False}
    except subprocess.TimeoutExpired:
        return {"cmd": " ".join([REPLAY_BIN] + args), "exit": None, "signal": None, "stdout": "", "stderr": "",
                "timed_out": True}


def write_script(name, text):
    os.makedirs(SCRIPTS, exist_ok=True)
    p = os.path.join(SCRIPTS, name)
    open(p, "w").write(text)
    return p


def le(bs):
    return int.from_bytes(bytes(bs), "little")


def signed(v, bits):
    return v - (1 << bits) if v >= 1 << (bits - 1) else v


TY_RE = re.compile(r"_(u8|u16|u32|u64|i8|i16|i32|i64)(?:_|$)")


def ty_of(harness):
    m = TY_RE.search(harness)
    return m.group(1) if m else None


def as_ty(v, ty):
    bits = int(ty[1:])
    v &= (1 << bits) - 1
    return signed(v, bits) if ty[0] == "i" else v


def result_value(r):
    m = re.search(r"RESULT (.*)", r["stdout"])
    return m.group(1).strip() if m else None


# ------------------------------------------------------------------ C10 / C01: integer / and %
def script_divmod(pid, unit, ob, witness):
    vecs = witness.get("vectors", []) if witness else []
    ty = ty_of(ob.harness)
    if not ty or len(vecs) < 2:
        return {"replayer": "script_divmod", "error": "no decodable witness", "confirms_violation": None}
    a, b = as_ty(le(vecs[0]["bytes"]), ty), as_ty(le(vecs[1]["bytes"]), ty)
    is_div = True
    if len(vecs) >= 3 and len(vecs[2]["bytes"]) == 1:
        is_div = vecs[2]["bytes"][0] != 0
    if ".mod." in ob.id:
        is_div = False
    if ".div." in ob.id:
        is_div = True
    op = "/" if is_div else "%"
    path = write_script("divmod_%s.roto" % ty, "fn main(a: %s, b: %s) -> %s { a %s b }\n" % (ty, ty, ty, op))
    r = child(["jit", ty, ty, path, str(a), str(b)])
    killed = r["signal"] is not None or r["timed_out"] or (r["exit"] not in (0, 3))
    return {"replayer": "script_divmod", "input": {"type": ty, "a": a, "b": b, "operator": op},
            "script": open(path).read(), "run": r,
            "outcome": "host process killed (signal %s)" % r["signal"] if killed else "returned " + str(result_value(r)),
            "confirms_violation": killed}


# ------------------------------------------------------------------ C01: value of an arithmetic operator
def lang_result(op, ty, a, b):
    bits = int(ty[1:])
    if op in "+-*":
        v = {"+": a + b, "-": a - b, "*": a * b}[op]
        return as_ty(v, ty)
    if b == 0:
        return None
    q = abs(a) // abs(b)
    if (a < 0) != (b < 0):
        q = -q
    if op == "/":
        return as_ty(q, ty)
    return as_ty(a - q * b, ty)


def script_arith(pid, unit, ob, witness):
    vecs = witness.get("vectors", []) if witness else []
    ty = ty_of(ob.harness)
    m = re.search(r"_(add|sub|mul|div|mod|neg)$", ob.harness)
    if not ty or len(vecs) < 2 or not m:
        return {"replayer": "script_arith", "error": "no decodable witness", "confirms_violation": None}
    a, b = as_ty(le(vecs[0]["bytes"]), ty), as_ty(le(vecs[1]["bytes"]), ty)
    opname = m.group(1)
    if opname == "neg":
        src = "fn main(a: %s, b: %s) -> %s { -a }\n" % (ty, ty, ty)
        want = as_ty(-a, ty)
    else:
        op = {"add": "+", "sub": "-", "mul": "*", "div": "/", "mod": "%"}[opname]
        src = "fn main(a: %s, b: %s) -> %s { a %s b }\n" % (ty, ty, ty, op)
        want = lang_result(op, ty, a, b)
    path = write_script("arith_%s_%s.roto" % (ty, opname), src)
    r = child(["jit", ty, ty, path, str(a), str(b)])
    got = result_value(r)
    bad = (r["signal"] is not None) or (want is not None and got is not None and str(want) != got)
    return {"replayer": "script_arith", "input": {"type": ty, "a": a, "b": b, "op": opname}, "script": src, "run": r,
            "language_defined_result": want, "real_result": got, "confirms_violation": bool(bad)}


# ------------------------------------------------------------------ C01: integer comparison at the operand signedness
def script_cmp(pid, unit, ob, witness):
    """harness c01_u1_binop_to_int_cmp: kani::any() order = op:u8, signed:bool, a:u64, b:u64"""
    vecs = witness.get("vectors", []) if witness else []
    if len(vecs) < 4:
        return {"replayer": "script_cmp", "error": "no decodable witness", "confirms_violation": None}
    k = vecs[0]["bytes"][0] % 13
    is_signed = vecs[1]["bytes"][0] != 0
    ty = "i64" if is_signed else "u64"
    a, b = as_ty(le(vecs[2]["bytes"]), ty), as_ty(le(vecs[3]["bytes"]), ty)
    op = BINOPS_ALL[k]
    if op not in ("==", "!=", "<", "<=", ">", ">="):
        return {"replayer": "script_cmp", "input": {"operator": op}, "error": "not a comparison operator", "confirms_violation": None}
    path = write_script("cmp_%s.roto" % ty, "fn main(a: %s, b: %s) -> bool { a %s b }\n" % (ty, ty, op))
    r = child(["jit", ty, "bool", path, str(a), str(b)])
    want = {"==": a == b, "!=": a != b, "<": a < b, "<=": a <= b, ">": a > b, ">=": a >= b}[op]
    got = result_value(r)
    return {"replayer": "script_cmp", "input": {"type": ty, "a": a, "b": b, "operator": op}, "script": open(path).read(), "run": r,
            "language_defined_result": str(want).lower(), "real_result": got, "confirms_violation": got is not None and got != str(want).lower()}


BINOPS_ALL = ["&&", "||", "==", "!=", "<", "<=", ">", ">=", "+", "-", "*", "/", "%"]


# ------------------------------------------------------------------ C20: evaluator vs JIT
def eval_vs_jit(pid, unit, ob, witness):
    vecs = witness.get("vectors", []) if witness else []
    h = ob.harness.split("::")[-1]
    ty = ty_of(h)
    if "_not" in h and vecs:
        x = "true" if vecs[0]["bytes"][0] else "false"
        path = write_script("eval_not.roto", "fn main(x: bool) -> bool { !x }\n")
        rj = child(["jit", "bool", "bool", path, x])
        re_ = child(["eval", "bool", "bool", path, x])
        diff = result_value(rj) is not None and result_value(re_) is not None and result_value(rj) != result_value(re_)
        return {"replayer": "eval_vs_jit", "input": {"x": x}, "script": open(path).read(), "jit": rj, "evaluator": re_,
                "outcome": "jit=%s evaluator=%s" % (result_value(rj), result_value(re_)), "confirms_violation": diff}
    m = re.search(r"c20_u1_(addsub|mul|divmod|cmp|negate)_", h)
    if not m or not ty or len(vecs) < 1:
        return {"replayer": "eval_vs_jit", "error": "no decodable witness for " + h, "confirms_violation": None}
    kind = m.group(1)
    a = as_ty(le(vecs[0]["bytes"]), ty)
    b = as_ty(le(vecs[1]["bytes"]), ty) if len(vecs) > 1 else 0
    results = []
    ops = {"addsub": ["+", "-"], "mul": ["*"], "divmod": ["/", "%"], "cmp": ["<", "<=", ">", ">="], "negate": ["neg"]}[kind]
    diff = False
    for op in ops:
        ret = "bool" if kind == "cmp" else ty
        body = "-a" if op == "neg" else "a %s b" % op
        path = write_script("eval_%s.roto" % kind, "fn main(a: %s, b: %s) -> %s { %s }\n" % (ty, ty, ret, body))
        rj = child(["jit", ty, ret, path, str(a), str(b)])
        re_ = child(["eval", ty, ret, path, str(a), str(b)])
        vj, ve = result_value(rj), result_value(re_)
        # the evaluator may stop loudly (non-zero exit); only a *completed* different value is a violation
        d = vj is not None and ve is not None and vj != ve
        diff = diff or d
        results.append({"op": op, "jit": vj, "evaluator": ve, "evaluator_exit": re_["exit"], "jit_signal": rj["signal"], "differs": d})
    return {"replayer": "eval_vs_jit", "input": {"type": ty, "a": a, "b": b}, "results": results, "confirms_violation": diff}


# ------------------------------------------------------------------ C15: list equality terminates
def list_ops(pid, unit, ob, witness):
    r = child(["listeq"], timeout=5)
    hung = r["timed_out"]
    return {"replayer": "list_ops", "input": "List::<i32>::from([1,2,3]) == List::<i32>::from([1,2,3]) (two distinct lists)",
            "run": r, "outcome": "did not return within 5 s" if hung else "returned " + str(result_value(r)),
            "confirms_violation": hung or result_value(r) == "false"}


# ------------------------------------------------------------------ C09: operator grouping
BINOPS = ["&&", "||", "==", "!=", "<", "<=", ">", ">=", "+", "-", "*", "/", "%"]


def script_precedence(pid, unit, ob, witness):
    vecs = witness.get("vectors", []) if witness else []
    if len(vecs) < 2:
        vecs = [{"bytes": [12]}, {"bytes": [10]}]
    o1, o2 = BINOPS[vecs[0]["bytes"][0] % 13], BINOPS[vecs[1]["bytes"][0] % 13]
    arith = {"+", "-", "*", "/", "%"}
    if o1 in arith and o2 in arith:
        src_a = "fn main(a: i32, b: i32, c: i32) -> i32 { a %s b %s c }\n" % (o1, o2)
        tight1 = BINOPS.index(o1) >= 10
        tight2 = BINOPS.index(o2) >= 10
        if tight2 and not tight1:
            src_b = "fn main(a: i32, b: i32, c: i32) -> i32 { a %s (b %s c) }\n" % (o1, o2)
        else:
            src_b = "fn main(a: i32, b: i32, c: i32) -> i32 { (a %s b) %s c }\n" % (o1, o2)
        pa, pb = write_script("prec_a.roto", src_a), write_script("prec_b.roto", src_b)
        diff = False
        runs = []
        for args in (["7", "3", "2"], ["17", "5", "3"], ["100", "7", "4"]):
            ra, rb = child(["jit", "i32", "i32", pa] + args), child(["jit", "i32", "i32", pb] + args)
            runs.append({"args": args, "unparenthesised": result_value(ra), "documented_grouping": result_value(rb)})
            diff = diff or result_value(ra) != result_value(rb)
        return {"replayer": "script_precedence", "input": {"operators": [o1, o2]}, "scripts": [src_a, src_b], "runs": runs,
                "confirms_violation": diff}
    return {"replayer": "script_precedence", "input": {"operators": [o1, o2]}, "error": "no executable demonstration for this operator pair", "confirms_violation": None}


REPLAYERS = {"script_cmp": script_cmp, "script_divmod": script_divmod, "script_arith": script_arith, "eval_vs_jit": eval_vs_jit,
             "list_ops": list_ops, "script_precedence": script_precedence}


def run(name, pid, unit, ob, witness):
    err = build()
    if err:
        return {"replayer": name, "error": err, "confirms_violation": None}
    # a unit may name several replayers keyed by harness substring: "a=script_arith,b=script_divmod"
    if "=" in name:
        chosen = None
        for part in name.split(","):
            k, v = part.split("=")
            if k in ob.harness:
                chosen = v
        name = chosen
    if name not in REPLAYERS:
        return None
    return REPLAYERS[name](pid, unit, ob, witness)


def replay_file(path):
    d = json.load(open(path))
    print(json.dumps({k: d.get(k) for k in ("property", "obligation", "harness", "failing_input_found")}, indent=1))
    rr = d.get("replay_on_real_code")
    if not rr:
        print("no real-code replay recorded for this obligation; verifier output follows")
        print(json.dumps(d.get("kani_failed_checks") or d.get("verifier_output_tail"), indent=1)[:4000])
        return 0
    err = build()
    if err:
        print(err)
        return 2

    def cmds(x):
        if isinstance(x, dict):
            if "cmd" in x and isinstance(x["cmd"], str):
                yield x["cmd"]
            for v in x.values():
                yield from cmds(v)
        elif isinstance(x, list):
            for v in x:
                yield from cmds(v)
    for c in cmds(rr):
        print("$ " + c)
        try:
            p = subprocess.run(c.split(" "), capture_output=True, text=True, timeout=20)
            print("  exit=%s %s" % (p.returncode, p.stdout.strip()[-300:]))
        except subprocess.TimeoutExpired:
            print("  did not return within 20 s")
    return 0
