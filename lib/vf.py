"""Shared machinery of /verif/check (see DESIGN.md section 2).

Back ends
  kin   : Kani harnesses compiled inside the real crate (cwd=/repo, cfg(kani) hooks)
  kex   : Kani on a crate assembled from verbatim fragments of /repo + a trusted shim
  verus : Verus on a file assembled from verbatim text of /repo + contract text

Verdict per obligation: discharged | violated | undecided.  Exit codes of check:
0 = all discharged (or only known findings), 1 = violation, 2 = undecided.
"""
import hashlib
import json
import os
import re
import shutil
import signal
import subprocess
import sys
import threading
import time
import tomllib

VERIF = os.path.dirname(os.path.dirname(os.path.abspath(__file__)))
REPO = os.environ.get("VERIF_REPO", "/repo")
CACHE = os.environ.get("VERIF_CACHE") or os.path.join(VERIF, ".cache")
RX = os.path.join(VERIF, "tools/rx/target/release/rx")
KANI_FLAGS = ["-Z", "function-contracts", "-Z", "stubbing"]
JOBS = int(os.environ.get("VERIF_JOBS", "12"))
RSS_LIMIT_KB = int(os.environ.get("VERIF_RSS_LIMIT_GB", "20")) * 1024 * 1024


class Undecided(Exception):
    """tool limit, lost anchor, timeout: never a violation"""


def log(*a):
    print(*a, file=sys.stderr, flush=True)


def sha256(b):
    if isinstance(b, str):
        b = b.encode()
    return hashlib.sha256(b).hexdigest()


def env_offline():
    e = dict(os.environ)
    e["CARGO_NET_OFFLINE"] = "true"
    e.setdefault("CARGO_TERM_COLOR", "never")
    return e


# --------------------------------------------------------------------------
# process running with timeout + RSS watchdog (kills cbmc, never the shell)
# --------------------------------------------------------------------------
def _cbmc_rss_watch(stop, flag):
    while not stop.wait(5.0):
        try:
            out = subprocess.run(["ps", "-C", "cbmc", "-o", "pid=,rss="], capture_output=True, text=True).stdout
        except Exception:
            continue
        for line in out.split("\n"):
            p = line.split()
            if len(p) == 2 and p[1].isdigit() and int(p[1]) > RSS_LIMIT_KB:
                flag.append("cbmc pid %s exceeded RSS limit (%d kB)" % (p[0], int(p[1])))
                try:
                    os.kill(int(p[0]), signal.SIGKILL)
                except Exception:
                    pass


def run(cmd, cwd=None, timeout=None, env=None, watch_rss=False):
    """returns (rc, output, note) ; rc None on timeout"""
    t0 = time.time()
    stop = threading.Event()
    flag = []
    if watch_rss:
        th = threading.Thread(target=_cbmc_rss_watch, args=(stop, flag), daemon=True)
        th.start()
    p = subprocess.Popen(cmd, cwd=cwd, env=env or env_offline(), stdout=subprocess.PIPE,
                         stderr=subprocess.STDOUT, text=True, start_new_session=True, errors="replace")
    try:
        out, _ = p.communicate(timeout=timeout)
        rc = p.returncode
    except subprocess.TimeoutExpired:
        try:
            os.killpg(p.pid, signal.SIGKILL)
        except Exception:
            pass
        out, _ = p.communicate()
        rc = None
    stop.set()
    return rc, out, {"wall_s": round(time.time() - t0, 2), "rss_kill": flag}


# --------------------------------------------------------------------------
# rx: verbatim fragments of the real source
# --------------------------------------------------------------------------
def ensure_rx():
    if os.path.exists(RX):
        return
    log("[setup] building tools/rx")
    rc, out, _ = run(["cargo", "build", "--release", "--offline"], cwd=os.path.join(VERIF, "tools/rx"), timeout=900)
    if rc != 0:
        raise Undecided("tools/rx does not build:\n" + out[-2000:])


class Source:
    """a real source file with (line, col-in-chars) -> byte offset conversion"""

    def __init__(self, rel):
        self.rel = rel
        self.path = os.path.join(REPO, rel)
        try:
            self.text = open(self.path, encoding="utf-8").read()
        except OSError as e:
            raise Undecided("lost anchor: cannot read %s (%s)" % (self.path, e))
        self.lines = self.text.split("\n")
        self.line_off = []
        off = 0
        for l in self.lines:
            self.line_off.append(off)
            off += len(l) + 1  # offsets in chars of the python str

    def off(self, line, col):
        return self.line_off[line - 1] + col

    def slice(self, rng):
        sl, sc, el, ec = rng
        return self.text[self.off(sl, sc):self.off(el, ec)]


_src_cache = {}


def source(rel):
    if rel not in _src_cache:
        _src_cache[rel] = Source(rel)
    return _src_cache[rel]


def locate(rel, selectors):
    """run rx on one file for several selectors -> list of dicts"""
    ensure_rx()
    src = source(rel)
    rc, out, _ = run([RX, src.path] + selectors, timeout=120)
    if rc != 0:
        raise Undecided("lost anchor: rx failed on %s: %s" % (rel, out[-500:]))
    res = [json.loads(l) for l in out.strip().split("\n") if l.strip()]
    if len(res) != len(selectors):
        raise Undecided("rx returned %d results for %d selectors" % (len(res), len(selectors)))
    return res


class Fragment:
    def __init__(self, name, rel, sel, part, text, rng):
        self.name, self.rel, self.sel, self.part, self.text, self.rng = name, rel, sel, part, text, rng
        self.sha = sha256(text)
        self.rewrites = []

    def describe(self):
        d = {"name": self.name, "file": self.rel, "selector": self.sel, "part": self.part,
             "lines": "%d-%d" % (self.rng[0], self.rng[2]), "sha256": self.sha}
        if self.rewrites:
            d["mechanical_rewrites"] = self.rewrites
        return d


def extract(frag_specs):
    """frag_specs: list of dict(name,file,sel,part='whole',rewrites=[[re,repl,why],...], expect_count)"""
    by_file = {}
    for f in frag_specs:
        by_file.setdefault(f["file"], []).append(f)
    out = {}
    for rel, fs in by_file.items():
        res = locate(rel, [f["sel"] for f in fs])
        src = source(rel)
        for f, r in zip(fs, res):
            if not r.get("found"):
                if f.get("optional"):
                    # an item that may or may not exist (e.g. helper impl blocks): absent -> empty text
                    fr = Fragment(f["name"], rel, f["sel"], f.get("part", "whole"), "", [0, 0, 0, 0])
                    fr.rewrites.append({"why": "optional fragment: not present in the current source"})
                    out[f["name"]] = fr
                    continue
                raise Undecided("lost anchor: %s in %s (%s)" % (f["sel"], rel, r.get("error", "count=%s" % r.get("count"))))
            if "expect_count" in f and r.get("count") != f["expect_count"]:
                raise Undecided("lost anchor: %s in %s matches %s places, expected %s" % (f["sel"], rel, r.get("count"), f["expect_count"]))
            part = f.get("part", "whole")
            if part == "head" and "bare" in r["ranges"] and "body" in r["ranges"]:
                # visibility + signature: from the first non-attribute token up to the body's brace
                b, bd = r["ranges"]["bare"], r["ranges"]["body"]
                r["ranges"]["head"] = [b[0], b[1], bd[0], bd[1]]
            if part not in r["ranges"]:
                raise Undecided("lost anchor: %s has no part %s" % (f["sel"], part))
            rng = r["ranges"][part]
            text = src.slice(rng)
            fr = Fragment(f["name"], rel, f["sel"], part, text, rng)
            for rw in f.get("rewrites", []):
                pat, repl, why = rw[0], rw[1], rw[2]
                mincount = rw[3] if len(rw) > 3 else 1
                new, n = re.subn(pat, repl, text, flags=re.S | re.M)
                if n < mincount:
                    raise Undecided("lost anchor: rewrite %r (%s) no longer applies to %s" % (pat, why, f["sel"]))
                text = new
                fr.rewrites.append({"pattern": pat, "replacement": repl, "why": why, "times": n})
            fr.text = text
            out[f["name"]] = fr
    return out


def _split_top(s, sep=","):
    out, depth, cur = [], 0, ""
    for ch in s:
        if ch in "([{<":
            depth += 1
        elif ch in ")]}>":
            depth -= 1
        if ch == sep and depth == 0:
            out.append(cur)
            cur = ""
        else:
            cur += ch
    if cur.strip():
        out.append(cur)
    return [x.strip() for x in out if x.strip()]


def _strip_comments(t):
    t = re.sub(r"//[^\n]*", "", t)
    return re.sub(r"/\*.*?\*/", "", t, flags=re.S)


def extract_armfns(specs):
    """An arm `Enum::Variant { a, b, c } => BODY` of a big match becomes
         pub fn <fn_name>(&mut self, a: &A, b: &B, c: &C) BODY
    BODY is verbatim; the parameter list is generated from the pattern's binding names and the
    field types of the (also extracted) enum definition, exactly what matching on `&Enum` binds."""
    out = {}
    for f in specs:
        arm = extract([{"name": "pat", "file": f["file"], "sel": f["sel"], "part": "pat"},
                       {"name": "body", "file": f["file"], "sel": f["sel"], "part": "body"}])
        if "expect_count" in f:
            r = locate(f["file"], [f["sel"]])[0]
            if r.get("count") != f["expect_count"]:
                raise Undecided("lost anchor: %s matches %s arms" % (f["sel"], r.get("count")))
        en = extract([{"name": "enum", "file": f["enum_file"], "sel": f["enum_sel"]}])["enum"]
        pat = _strip_comments(arm["pat"].text)
        m = re.match(r"\s*([\w:]+)\s*\{(.*)\}\s*$", pat, flags=re.S)
        if not m or not m.group(1).endswith("::" + f["variant"]):
            raise Undecided("lost anchor: pattern of %s is not a plain struct pattern of variant %s: %r" % (f["sel"], f["variant"], pat[:80]))
        raw = _split_top(m.group(2))
        binds, names = [], {}
        for b in raw:
            if b == "..":
                continue
            bm = re.fullmatch(r"(\w+)\s*:\s*(\w+)", b)
            if bm:
                if bm.group(2) == "_":
                    continue  # `field: _` binds nothing
                binds.append(bm.group(1))
                names[bm.group(1)] = bm.group(2)
            elif re.fullmatch(r"\w+", b):
                binds.append(b)
                names[b] = b
            else:
                raise Undecided("lost anchor: pattern of %s has non-trivial bindings %r" % (f["sel"], raw))
        et = _strip_comments(re.sub(r"^\s*///[^\n]*$", "", en.text, flags=re.M))
        vm = re.search(r"\b" + f["variant"] + r"\s*\{(.*?)\}", et, flags=re.S)
        if not vm:
            raise Undecided("lost anchor: variant %s not found in %s" % (f["variant"], f["enum_sel"]))
        ftypes = {}
        for fld in _split_top(vm.group(1)):
            fm = re.match(r"(?:pub\s+)?(\w+)\s*:\s*(.+)$", fld, flags=re.S)
            if fm:
                ftypes[fm.group(1)] = " ".join(fm.group(2).split())
        missing = [b for b in binds if b not in ftypes]
        if missing:
            raise Undecided("lost anchor: bindings %s are not fields of variant %s" % (missing, f["variant"]))
        plist = [f.get("self_param", "&mut self")] + list(f.get("extra_params", [])) + ["%s: &%s" % (names[b], ftypes[b]) for b in binds]
        params = ", ".join(p for p in plist if p)
        body = arm["body"].text
        if f.get("wrap_loop"):
            # the arm uses `continue` of the interpreter loop: run the body exactly once inside a loop
            body = "{ let mut __once = false; loop { if __once { break; } __once = true; %s; break; } }" % body
        text = "pub fn %s(%s) %s" % (f["fn_name"], params, body)
        fr = Fragment(f["name"], f["file"], f["sel"], "body", text, arm["body"].rng)
        fr.sha = arm["body"].sha
        fr.rewrites.append({"why": "match arm wrapped as a method; parameter list generated from the pattern bindings %s and the field types of %s::%s" % (binds, f["enum_sel"], f["variant"]),
                            "pattern_sha256": arm["pat"].sha, "enum_sha256": en.sha, "generated_signature": "fn %s(%s)" % (f["fn_name"], params)})
        out[f["name"]] = fr
    return out


def extract_all(frag_specs):
    plain = [f for f in frag_specs if f.get("kind", "plain") == "plain"]
    arms = [f for f in frag_specs if f.get("kind") == "armfn"]
    out = extract(plain)
    out.update(extract_armfns(arms))
    return out


def fill_template(tpl, frags):
    def sub(m):
        n = m.group(1)
        if n not in frags:
            raise Undecided("template refers to unknown fragment " + n)
        return frags[n].text
    return re.sub(r"/\*@([A-Za-z0-9_]+)@\*/", sub, tpl)


# --------------------------------------------------------------------------
# Kani
# --------------------------------------------------------------------------
class HarnessResult:
    def __init__(self, name):
        self.name = name
        self.status = None  # SUCCESSFUL | FAILED | None
        self.failed = []    # descriptions of failed checks
        self.covers = None  # (sat, total)
        self.time_s = None
        self.raw = ""
        self.props = []     # [(class, description)] from the goto binary


def parse_kani_terse(out):
    """terse/-j output -> {pretty_name: HarnessResult}; also handles sequential terse output"""
    res = {}
    cur = {}  # thread -> harness
    lines = out.split("\n")
    i = 0
    tid = "0"
    active = None
    while i < len(lines):
        l = lines[i]
        m = re.match(r"(?:Thread (\d+): )?Checking harness (\S+?)\.\.\.\s*$", l)
        if m:
            tid = m.group(1) or "0"
            cur[tid] = HarnessResult(m.group(2))
            res[m.group(2)] = cur[tid]
            active = cur[tid] if m.group(1) is None else None
            i += 1
            continue
        m = re.match(r"Thread (\d+):\s*$", l)
        if m:
            active = cur.get(m.group(1))
            i += 1
            continue
        if l.startswith("Manual Harness Summary") or l.startswith("Complete - "):
            active = None
        if active is not None:
            active.raw += l + "\n"
            m = re.match(r"Failed Checks: (.*)$", l)
            if m:
                active.failed.append(m.group(1).strip().strip('"'))
            m = re.match(r"\s*\*\* (\d+) of (\d+) cover properties satisfied", l)
            if m:
                active.covers = (int(m.group(1)), int(m.group(2)))
            m = re.match(r"VERIFICATION:- (SUCCESSFUL|FAILED)", l)
            if m:
                active.status = m.group(1)
            m = re.match(r"Verification Time: ([0-9.]+)s", l)
            if m:
                active.time_s = float(m.group(1))
                active = None if len(cur) > 1 or "Thread" in out else active
        i += 1
    return res


def kani_metadata(target_dir, want):
    """newest kani-metadata.json that contains all wanted harness pretty names"""
    best = None
    for root, _, files in os.walk(target_dir):
        for f in files:
            if f.endswith(".kani-metadata.json"):
                p = os.path.join(root, f)
                try:
                    d = json.load(open(p))
                except Exception:
                    continue
                names = {h["pretty_name"] for h in d.get("proof_harnesses", [])}
                if set(want) <= names:
                    mt = os.path.getmtime(p)
                    if best is None or mt > best[0]:
                        best = (mt, d)
    return best[1] if best else None


def harness_properties(meta, pretty):
    for h in meta["proof_harnesses"]:
        if h["pretty_name"] == pretty:
            g = h["goto_file"]
            cand = [g[:-len(".symtab.out")] + ".out"] if g.endswith(".symtab.out") else []
            cand.append(g)
            for c in cand:
                if os.path.exists(c):
                    rc, out, _ = run(["cbmc", "--show-properties", "--json-ui", c], timeout=300)
                    try:
                        start = out.index("[")
                        d = json.loads(out[start:])
                    except Exception:
                        continue
                    props = []
                    for e in d:
                        for p in e.get("properties", []):
                            desc = re.sub(r"^\[KANI_CHECK_ID_[^\]]*\]\s*", "", p.get("description", ""))
                            props.append((p.get("class", ""), desc.strip().strip('"')))
                    return props
    return None


def prune_kani_target(target_dir, keep=2):
    """each harness selection gets its own hash dir below build/<crate>/ ; keep the newest"""
    for root, dirs, _ in os.walk(target_dir):
        if os.path.basename(os.path.dirname(root)) == "build" or root.endswith("/build"):
            continue
    base = os.path.join(target_dir, "kani")
    if not os.path.isdir(base):
        return
    for triple in os.listdir(base):
        b = os.path.join(base, triple, "debug", "build")
        if not os.path.isdir(b):
            continue
        for crate in os.listdir(b):
            cdir = os.path.join(b, crate)
            subs = [os.path.join(cdir, s) for s in os.listdir(cdir)]
            subs = [s for s in subs if os.path.isdir(s)]
            subs.sort(key=os.path.getmtime, reverse=True)
            for s in subs[keep:]:
                shutil.rmtree(s, ignore_errors=True)


def run_kani(cwd, target_dir, pretty_names, extra=None, timeout=3600, jobs=None):
    """one cargo-kani invocation over the given harnesses (exact names)"""
    os.makedirs(target_dir, exist_ok=True)
    cmd = ["cargo", "kani"] + (extra or []) + ["--target-dir", target_dir] + KANI_FLAGS + \
          ["--output-format=terse", "-j", str(jobs or JOBS), "--exact"]
    for h in pretty_names:
        cmd += ["--harness", h]
    rc, out, note = run(cmd, cwd=cwd, timeout=timeout, watch_rss=True)
    res = parse_kani_terse(out)
    compile_failed = ("error: could not compile" in out) or ("error[E" in out and not res) or \
                     (rc not in (0, 1, None) and not res)
    info = {"cmd": " ".join(cmd), "rc": rc, "wall_s": note["wall_s"], "rss_kill": note["rss_kill"],
            "compile_failed": compile_failed, "timed_out": rc is None, "output": out}
    if not compile_failed:
        meta = kani_metadata(target_dir, [h for h in pretty_names if h in res])
        if meta:
            for h, r in res.items():
                p = harness_properties(meta, h)
                if p is not None:
                    r.props = p
    return res, info


def kani_playback(cwd, target_dir, pretty, extra=None, timeout=1800):
    """re-run one failing harness to obtain the concrete witness (byte vectors per kani::any())"""
    cmd = ["cargo", "kani"] + (extra or []) + ["--target-dir", target_dir] + KANI_FLAGS + \
          ["-Z", "concrete-playback", "--concrete-playback=print", "--exact", "--harness", pretty]
    rc, out, note = run(cmd, cwd=cwd, timeout=timeout, watch_rss=True)
    vecs = []
    m = re.search(r"Concrete playback unit test for .*?```\s*(.*?)```", out, flags=re.S)
    test = m.group(1) if m else None
    if test:
        for vm in re.finditer(r"//\s*(.*?)\n\s*vec!\[([0-9,\s]*)\]", test):
            bs = [int(x) for x in vm.group(2).replace(" ", "").split(",") if x]
            vecs.append({"comment": vm.group(1).strip(), "bytes": bs})
    # the failing checks with their descriptions, from the regular output
    failed = []
    for cm in re.finditer(r"Check \d+: (\S+)\n\s*- Status: FAILURE\n\s*- Description: \"(.*?)\"\n\s*- Location: (.*?)\n", out):
        failed.append({"check": cm.group(1), "description": cm.group(2), "location": cm.group(3)})
    return {"vectors": vecs, "unit_test": test, "failed_checks": failed, "tail": out[-6000:]}


# --------------------------------------------------------------------------
# Verus
# --------------------------------------------------------------------------
def run_verus(path, timeout=1800, extra=None):
    cmd = ["verus", path, "--output-json", "--time", "--num-threads", str(min(JOBS, 8))] + (extra or [])
    rc, out, note = run(cmd, timeout=timeout)
    js = None
    # stdout holds the json object; stderr (merged) holds diagnostics
    i = out.find("{\n")
    depth_try = [m.start() for m in re.finditer(r"^\{", out, flags=re.M)]
    for st in depth_try:
        try:
            js, _ = json.JSONDecoder().raw_decode(out[st:])
            if "verification-results" in js or "times-ms" in js:
                break
            js = None
        except Exception:
            js = None
    return {"cmd": " ".join(cmd), "rc": rc, "json": js, "output": out, "wall_s": note["wall_s"], "timed_out": rc is None}


# --------------------------------------------------------------------------
# misc
# --------------------------------------------------------------------------
def load_toml(path):
    with open(path, "rb") as f:
        return tomllib.load(f)


def scan_assumptions(paths):
    """mechanical scan for assumption-like constructs in harness/shim/spec text"""
    pats = [r"kani::assume\(", r"\bassume\(", r"\badmit\(", r"external_body", r"assume_specification",
            r"kani::stub\(", r"stub_verified", r"\bunsafe\b", r"external_fn_specification", r"#\[verifier::external"]
    found = {}
    for p in paths:
        try:
            t = open(p, encoding="utf-8").read()
        except OSError:
            continue
        for pat in pats:
            n = len(re.findall(pat, t))
            if n:
                found.setdefault(os.path.relpath(p, VERIF), {})[pat.replace("\\", "")] = n
    return found
