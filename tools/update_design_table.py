#!/usr/bin/env python3
"""replace the seed table between the markers in DESIGN.md by the output of tools/seed_matrix.py"""
import os, re, subprocess
V = os.path.dirname(os.path.dirname(os.path.abspath(__file__)))
t = subprocess.run(["python3", os.path.join(V, "tools/seed_matrix.py")], capture_output=True, text=True, check=True).stdout.strip()
p = os.path.join(V, "DESIGN.md")
d = open(p).read()
d2 = re.sub(r"<!-- SEED_TABLE_BEGIN -->.*?<!-- SEED_TABLE_END -->", "<!-- SEED_TABLE_BEGIN -->\n" + t.replace("\\", "\\\\") + "\n<!-- SEED_TABLE_END -->", d, flags=re.S)
open(p, "w").write(d2)
print("rows:", t.count("\n") - 1)
