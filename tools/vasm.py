#!/usr/bin/env python3
"""dev helper: assemble a verus unit into .cache/verus/<name>.rs"""
import sys, os
sys.path.insert(0, '/verif/lib')
import vf
name = sys.argv[1]
d = '/verif/harness/verus/' + name
u = vf.load_toml(d + '/unit.toml')
fr = vf.extract_all(u['frag'])
t = vf.fill_template(open(d + '/' + u.get('template', 'template.rs')).read(), fr)
os.makedirs('/verif/.cache/verus', exist_ok=True)
open('/verif/.cache/verus/%s.rs' % name, 'w').write(t)
print('/verif/.cache/verus/%s.rs' % name)
