#!/usr/bin/env python3
"""print the markdown table 'which checks catch which seeded changes' from seeded/*/meta.json + detection.json"""
import json, os, glob
V = os.path.dirname(os.path.dirname(os.path.abspath(__file__)))
rows = []
for d in sorted(glob.glob(os.path.join(V, "seeded", "*"))):
    m = json.load(open(os.path.join(d, "meta.json")))
    det = json.load(open(os.path.join(d, "detection.json"))) if os.path.exists(os.path.join(d, "detection.json")) else {}
    obl = sorted({l.split("obligation=")[1].split(" ")[0] for l in det.get("failed_obligations", [])})
    if det.get("detected"):
        res = "**caught** (%s tier, exit 1): %s" % (det.get("tier"), ", ".join("`%s`" % o for o in obl[:3]) + (" ..." if len(obl) > 3 else ""))
    elif det.get("exit") == 2:
        res = "not caught - exit 2 (undecided): " + (det.get("undecided") or ["?"])[0][:140]
    elif det.get("exit") == 0:
        res = "not caught (exit 0): no unit covers the changed code"
    else:
        res = det.get("reason", "not run")
    rows.append("| %s | %s | %s | %s |" % (m["id"], m["breaks_property"], m["summary"].replace("|", "\\|"), res))
print("| seed | property | change | result of `./check <property>` on the changed tree |")
print("|---|---|---|---|")
print("\n".join(rows))
