#!/opt/veriftools/pyvenv/bin/python3
"""validate MANIFEST.json and every evidence file against the schemas; print proof-level consistency"""
import json, glob, jsonschema, sys, os
V = os.path.dirname(os.path.dirname(os.path.abspath(__file__)))
ms = json.load(open('/root/.vp/MANIFEST.schema.json')); es = json.load(open('/root/.vp/EVIDENCE.schema.json'))
m = json.load(open(V + '/MANIFEST.json')); jsonschema.validate(m, ms)
bad = 0
for c in m['checks']:
    p = c['evidence_file']
    if not os.path.exists(p):
        print('MISSING', p); bad += 1; continue
    e = json.load(open(p))
    try:
        jsonschema.validate(e, es)
    except Exception as ex:
        print('INVALID', p, str(ex)[:200]); bad += 1; continue
    cov = e['coverage']
    note = ''
    if e['level'] != c['level_claimed']['category']:
        note += ' LEVEL-MISMATCH'; bad += 1
    if e['level'] == 'proof' and cov['obligations'] != cov['discharged']:
        note += ' PROOF-INCOMPLETE'; bad += 1
    print('%s %-5s %-8s obligations=%d discharged=%d bounded=%d/%d violations=%d undecided=%d wall=%.0fs%s' % (
        c['property_id'], e['tier'], e['level'], cov['obligations'], cov['discharged'], cov['bounded_passed'], cov['bounded_total'],
        e.get('violations', 0), len(cov.get('undecided', [])), e['wall_s'], note))
sys.exit(1 if bad else 0)
