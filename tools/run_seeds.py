#!/usr/bin/env python3
"""Apply each confirmed seeded change to /repo, run the property's check, undo the change.
usage: tools/run_seeds.py [--tier quick|thorough] [ID ...]
Writes seeded/<ID>/detection.json. Must be run when nothing else reads /repo."""
import json, os, subprocess, sys, time
V = os.path.dirname(os.path.dirname(os.path.abspath(__file__)))
tier = "quick"
ids = []
args = sys.argv[1:]
while args:
    a = args.pop(0)
    if a == "--tier":
        tier = args.pop(0)
    else:
        ids.append(a)
if not ids:
    ids = sorted(os.listdir(os.path.join(V, "seeded")))
claimed = {c["property_id"] for c in json.load(open(os.path.join(V, "MANIFEST.json")))["checks"]}
for sid in ids:
    d = os.path.join(V, "seeded", sid)
    meta = json.load(open(os.path.join(d, "meta.json")))
    pid = meta["breaks_property"]
    st = subprocess.run(["git", "-C", "/repo", "status", "--porcelain"], capture_output=True, text=True).stdout.strip()
    if st:
        print("refusing: /repo is not clean:\n" + st)
        sys.exit(3)
    res = {"seed": sid, "property": pid, "tier": tier}
    if pid not in claimed:
        res.update({"detected": False, "reason": "property is not claimed (not_applicable)"})
    else:
        r = subprocess.run(["git", "-C", "/repo", "apply", os.path.join(d, "patch.diff")], capture_output=True, text=True)
        if r.returncode != 0:
            res.update({"detected": None, "reason": "patch does not apply to the current tree: " + r.stderr[-300:]})
        else:
            t0 = time.time()
            # evidence/<pid>.json describes /repo itself: keep it, and store the run against the
            # seeded tree next to the seed instead
            ev = os.path.join(V, "evidence", pid + ".json")
            keep = open(ev).read() if os.path.exists(ev) else None
            try:
                p = subprocess.run([os.path.join(V, "check"), pid, "--tier", tier], cwd=V, capture_output=True, text=True, timeout=3 * 3600)
                out = p.stdout
                res.update({"exit": p.returncode, "wall_s": round(time.time() - t0, 1),
                            "violations": [l for l in out.split("\n") if l.startswith("VIOLATION")],
                            "failed_obligations": [l for l in out.split("\n") if l.startswith("FAILED-OBLIGATION")],
                            "undecided": [l[:300] for l in out.split("\n") if l.startswith("UNDECIDED")],
                            "detected": p.returncode == 1})
            finally:
                subprocess.run(["git", "-C", "/repo", "checkout", "--", "."], check=True)
                if os.path.exists(ev):
                    os.replace(ev, os.path.join(d, "evidence_with_seed.json"))
                if keep is not None:
                    open(ev, "w").write(keep)
    json.dump(res, open(os.path.join(d, "detection.json"), "w"), indent=1)
    print(sid, pid, "detected=%s" % res.get("detected"), "exit=%s" % res.get("exit"), res.get("reason", ""), flush=True)
    for l in res.get("failed_obligations", [])[:4]:
        print("   ", l[:200])
