#!/usr/bin/env python3
"""store_seed.py <id> "<summary>" "<needs>"  - copies a confirmed seed from /tmp/seed/<id> to seeded/<id>"""
import json, os, shutil, sys, re
sid, summary, needs = sys.argv[1], sys.argv[2], sys.argv[3]
src = "/tmp/seed/" + sid
log = open(src + "/confirm.log").read()
assert "\nCONFIRMED" in log, "not confirmed"
res = re.findall(r"^RESULT .*$", log, flags=re.M)[-1]
dst = "/verif/seeded/" + sid
os.makedirs(dst, exist_ok=True)
for f in ("patch.diff", "seed_demo.rs", "notes.md"):
    shutil.copy(os.path.join(src, f), os.path.join(dst, f))
meta = {"property": sid[:3], "summary": summary, "id": sid, "breaks_property": sid[:3],
        "what_it_needs_to_manifest": needs,
        "produced_by": "independent sub-agent given only the property text and a scratch worktree (round c: told which functions earlier seeds already changed)",
        "confirmed_by_me": {"how": "tools/confirm_seed.sh (git apply / git apply -R) in the scratch worktree", "result": res},
        "detected_by": None}
json.dump(meta, open(dst + "/meta.json", "w"), indent=1)
print("stored", dst)
