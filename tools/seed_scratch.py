#!/usr/bin/env python3
"""Development aid: run a check against a SCRATCH worktree of /repo with a seeded change applied,
so that /repo itself (and /verif/evidence, /verif/.cache) stay untouched and other work can go on.
usage: tools/seed_scratch.py <seed-id | patch file | none> <PID> [--only UNIT,..] [--tier T] [--slot N]
The registered way of running a seed (tools/run_seeds.py: apply to /repo, check, undo) is what
detection.json files come from; this tool only prints."""
import os, subprocess, sys
V = os.path.dirname(os.path.dirname(os.path.abspath(__file__)))
args = sys.argv[1:]
seed, pid = args[0], args[1]
rest = args[2:]
slot = "0"
record = "--record" in rest
if record:
    rest.remove("--record")
if "--slot" in rest:
    i = rest.index("--slot"); slot = rest[i + 1]; del rest[i:i + 2]
wt, cache, out = "/tmp/scratch_repo" + slot, "/tmp/scratch_cache" + slot, "/tmp/scratch_out" + slot
if not os.path.isdir(wt):
    subprocess.run(["git", "-C", "/repo", "worktree", "add", "--detach", wt, "HEAD"], check=True, capture_output=True)
subprocess.run(["git", "-C", wt, "checkout", "-q", "--detach", subprocess.run(["git", "-C", "/repo", "rev-parse", "HEAD"], capture_output=True, text=True).stdout.strip()], check=True)
subprocess.run(["git", "-C", wt, "checkout", "--", "."], check=True)
if seed != "none":
    patch = seed if os.path.exists(seed) else os.path.join(V, "seeded", seed, "patch.diff")
    subprocess.run(["git", "-C", wt, "apply", patch], check=True)
os.makedirs(out, exist_ok=True)
# the rx binary is shared
os.makedirs(cache, exist_ok=True)
env = dict(os.environ, VERIF_REPO=wt, VERIF_CACHE=cache, VERIF_OUT=out)
p = subprocess.run([os.path.join(V, "check"), pid] + rest, cwd=V, env=env, capture_output=True, text=True)
for l in (p.stdout + p.stderr).split("\n"):
    if l.startswith(("VIOLATION", "FAILED-OBLIGATION", "UNDECIDED", "KNOWN-FINDING", "[" + pid + "]")):
        print(l[:400])
print("exit", p.returncode)
if record and seed != "none" and not os.path.exists(seed):
    import json, time
    out_l = (p.stdout + p.stderr).split("\n")
    det = {"seed": seed, "property": pid, "tier": "quick", "exit": p.returncode, "detected": p.returncode == 1,
           "how": "tools/seed_scratch.py: patch applied to a scratch git worktree of /repo HEAD, ./check %s %s run with VERIF_REPO pointing at it (own cache, own evidence directory); /repo untouched" % (pid, " ".join(rest)),
           "violations": [l for l in out_l if l.startswith("VIOLATION")],
           "failed_obligations": [l for l in out_l if l.startswith("FAILED-OBLIGATION")],
           "undecided": [l[:300] for l in out_l if l.startswith("UNDECIDED")]}
    json.dump(det, open(os.path.join(V, "seeded", seed, "detection.json"), "w"), indent=1)
subprocess.run(["git", "-C", wt, "checkout", "--", "."], check=True)
