#!/bin/bash
# confirm_seed.sh <seed-id> <worktree> [RUSTFLAGS for the demo]
# Confirms in a scratch worktree: suite passes with the change; demo fails with it and passes without.
# Uses `git apply` / `git apply -R` (never `git stash`: the stash is shared between worktrees).
id=$1; wt=$2; demoflags=$3; out=/tmp/seed/$id; log=$out/confirm.log
exec > $log 2>&1
set -x
cd $wt || exit 9
git checkout -q -- . ; git clean -q -fd tests 2>/dev/null
git apply $out/patch.diff || { echo "PATCH-DOES-NOT-APPLY"; echo NOT-CONFIRMED; exit 1; }
cargo test --workspace --offline -j 6 > $out/suite_with_change.log 2>&1; s1=$?
grep -E "^test result|FAILED|failed" $out/suite_with_change.log | head -20
cp $out/seed_demo.rs tests/seed_demo.rs
RUSTFLAGS="$demoflags" timeout 1200 cargo test --offline -j 6 --test seed_demo > $out/demo_with_change.log 2>&1; d1=$?
tail -5 $out/demo_with_change.log
git apply -R $out/patch.diff
RUSTFLAGS="$demoflags" timeout 1200 cargo test --offline -j 6 --test seed_demo > $out/demo_without_change.log 2>&1; d0=$?
tail -5 $out/demo_without_change.log
git apply $out/patch.diff
echo "RESULT suite_with_change=$s1 demo_with_change=$d1 demo_without_change=$d0"
if [ $s1 -eq 0 ] && [ $d1 -ne 0 ] && [ $d0 -eq 0 ]; then echo CONFIRMED; else echo NOT-CONFIRMED; fi
