#!/bin/bash
# confirm_seed.sh <seed-id> <worktree>   (worktree has the change applied and tests/seed_demo.rs)
# Confirms: patch == worktree diff; suite passes with the change; demo fails with it and passes without.
id=$1; wt=$2; out=/tmp/seed/$id; log=$out/confirm.log
exec > $log 2>&1
set -x
cd $wt || exit 9
git diff -- src macros > $out/patch.check.diff
if ! diff -q <(grep -v '^index ' $out/patch.diff) <(grep -v '^index ' $out/patch.check.diff); then echo "PATCH-MISMATCH (using worktree diff)"; cp $out/patch.check.diff $out/patch.diff; fi
[ -f tests/seed_demo.rs ] || cp $out/seed_demo.rs tests/seed_demo.rs
mv tests/seed_demo.rs /tmp/seed/$id/seed_demo.hold.rs
cargo test --workspace --offline -j 6 > $out/suite_with_change.log 2>&1; s1=$?
grep -E "^test result|FAILED|failed" $out/suite_with_change.log | head -20
cp /tmp/seed/$id/seed_demo.hold.rs tests/seed_demo.rs
timeout 900 cargo test --offline -j 6 --test seed_demo > $out/demo_with_change.log 2>&1; d1=$?
tail -5 $out/demo_with_change.log
git stash push -- src macros
timeout 900 cargo test --offline -j 6 --test seed_demo > $out/demo_without_change.log 2>&1; d0=$?
tail -5 $out/demo_without_change.log
git stash pop
echo "RESULT suite_with_change=$s1 demo_with_change=$d1 demo_without_change=$d0"
if [ $s1 -eq 0 ] && [ $d1 -ne 0 ] && [ $d0 -eq 0 ]; then echo CONFIRMED; else echo NOT-CONFIRMED; fi
