#!/usr/bin/env python3
"""Regenerate /verif/MANIFEST.json from specs/*.toml and specs/not_applicable.toml."""
import json, os, sys, glob, tomllib
V = os.path.dirname(os.path.dirname(os.path.abspath(__file__)))
na = tomllib.load(open(os.path.join(V, "specs/not_applicable.toml"), "rb"))
checks = []
claimed = []
for p in sorted(glob.glob(os.path.join(V, "specs/C*.toml"))):
    s = tomllib.load(open(p, "rb"))
    pid = s["property"]
    claimed.append(pid)
    engines = sorted({u["engine"] for u in s["unit"]})
    checks.append({
        "property_id": pid,
        "quick_cmd": "./check %s --tier quick" % pid,
        "thorough_cmd": "./check %s --tier thorough" % pid,
        "evidence_file": "/verif/evidence/%s.json" % pid,
        "replay_cmd_template": "./check %s --replay {path}" % pid,
        "engine": "+".join({"kin": "kani-in-crate", "kex": "kani-extracted", "verus": "verus"}[e] for e in engines),
        "level_claimed": {"category": s.get("level", "other"), "text": s["level_text"], "design_ref": "DESIGN.md section 4, " + pid},
        "level_note": s["level_note"],
        "technique": s["technique"],
    })
nal = [{"property_id": k, "reason": v} for k, v in sorted(na["not_applicable"].items()) if k not in claimed]
hooks = json.load(open(os.path.join(V, "specs/hooks.json")))
m = {
    "version": 1,
    "setup_cmd": "./check --setup",
    "hooks": hooks,
    "engines": [
        {"name": "kani-in-crate", "path": "/verif/harness/incrate", "serves_properties": [c["property_id"] for c in checks if "kani-in-crate" in c["engine"]],
         "kind_free_text": "Kani 0.68 (CBMC 6.11) harnesses compiled inside the real crate through cfg(kani) hooks; contracts as assume/call/assert or kani::requires/ensures"},
        {"name": "kani-extracted", "path": "/verif/harness/extract", "serves_properties": [c["property_id"] for c in checks if "kani-extracted" in c["engine"]],
         "kind_free_text": "Kani on a crate assembled on every run from verbatim byte ranges of /repo (tools/rx, syn) plus a trusted environment shim"},
        {"name": "verus", "path": "/verif/harness/verus", "serves_properties": [c["property_id"] for c in checks if "verus" in c["engine"]],
         "kind_free_text": "Verus 0.2026.09.13 (Z3) on a single file assembled on every run from verbatim source text plus requires/ensures/invariant text"},
    ],
    "checks": checks,
    "notes": "Contract-based deductive verification; see DESIGN.md. Exit 2 = undecided (tool limit / lost anchor), never an alarm.",
    "not_applicable": nal,
}
json.dump(m, open(os.path.join(V, "MANIFEST.json"), "w"), indent=1)
print("MANIFEST.json: %d checks, %d not_applicable" % (len(checks), len(nal)))
