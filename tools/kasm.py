import sys
sys.path.insert(0,'/verif/lib')
import importlib.machinery, importlib.util
loader = importlib.machinery.SourceFileLoader('check', '/verif/check'); spec = importlib.util.spec_from_loader('check', loader); m = importlib.util.module_from_spec(spec); loader.exec_module(m)
print(m.assemble_kex({'dir': sys.argv[1]})[0])
