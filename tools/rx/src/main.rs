//! rx — locator for verbatim source fragments of /repo.
//!
//! usage: rx <file.rs> <selector>...
//! Prints one JSON line per selector with (line, column-in-chars) ranges; the
//! caller (check, Python) converts them to byte offsets and slices the *source
//! text itself*.  Nothing is pretty-printed here.
//!
//! selectors
//!   fn:NAME | fn:Type::NAME | fn:Trait for Type::NAME      -> whole, bare, sig, body
//!   item:struct N | enum N | type N | const N | static N | macro N | trait N | mod N
//!   item:impl Type[#k] | item:impl Trait for Type[#k]       -> whole, bare
//!   arm:FNSEL|PATPREFIX[#k]                                 -> whole, pat, body  (+ "guard")
//!   inmacro:NAME[#k]|SELECTOR   parse the tokens of the k-th `NAME!{..}` call as items
//!   macrotokens:NAME[#k]        range of the tokens inside the delimiters
use proc_macro2::{Span, TokenStream};
use quote::ToTokens;
use syn::spanned::Spanned;
use syn::visit::Visit;

#[derive(Clone, Copy)]
struct R(usize, usize, usize, usize);

fn r(a: Span, b: Span) -> R {
    let s = a.start();
    let e = b.end();
    R(s.line, s.column, e.line, e.column)
}

fn span_of<T: ToTokens>(t: &T) -> Option<R> {
    let mut it = t.to_token_stream().into_iter();
    let first = it.next()?;
    let last = it.last().unwrap_or_else(|| first.clone());
    Some(r(first.span(), last.span()))
}

fn json_ranges(pairs: &[(&str, Option<R>)]) -> String {
    let mut s = String::from("{");
    let mut first = true;
    for (k, v) in pairs {
        if let Some(R(a, b, c, d)) = v {
            if !first {
                s.push(',');
            }
            first = false;
            s.push_str(&format!("\"{}\":[{},{},{},{}]", k, a, b, c, d));
        }
    }
    s.push('}');
    s
}

fn norm(s: &str) -> String {
    s.chars().filter(|c| !c.is_whitespace()).collect()
}

fn type_last_ident(t: &syn::Type) -> Option<String> {
    match t {
        syn::Type::Path(p) => p.path.segments.last().map(|s| s.ident.to_string()),
        syn::Type::Reference(r) => type_last_ident(&r.elem),
        syn::Type::Paren(p) => type_last_ident(&p.elem),
        syn::Type::Group(p) => type_last_ident(&p.elem),
        _ => None,
    }
}

fn path_last_ident(p: &syn::Path) -> Option<String> {
    p.segments.last().map(|s| s.ident.to_string())
}

/// (trait name, type name) of an impl block
fn impl_key(i: &syn::ItemImpl) -> (Option<String>, Option<String>) {
    let tr = i.trait_.as_ref().and_then(|(_, p, _)| path_last_ident(p));
    (tr, type_last_ident(&i.self_ty))
}

struct FnSel {
    tr: Option<String>,
    ty: Option<String>,
    name: String,
}

fn parse_fnsel(s: &str) -> FnSel {
    // "Trait for Type::name" | "Type::name" | "name"
    let (tr, rest) = match s.split_once(" for ") {
        Some((t, rest)) => (Some(t.trim().to_string()), rest.trim()),
        None => (None, s.trim()),
    };
    match rest.rsplit_once("::") {
        Some((ty, name)) => FnSel { tr, ty: Some(ty.trim().to_string()), name: name.trim().to_string() },
        None => FnSel { tr, ty: None, name: rest.to_string() },
    }
}

struct FnHit {
    whole: Option<R>,
    bare: Option<R>,
    sig: Option<R>,
    body: Option<R>,
    block: syn::Block,
}

struct FnFinder<'a> {
    sel: &'a FnSel,
    cur_impl: Option<(Option<String>, Option<String>)>,
    hits: Vec<FnHit>,
}

fn bare_start<T: ToTokens>(vis: &syn::Visibility, rest: &T) -> Option<Span> {
    let mut it = vis.to_token_stream().into_iter();
    if let Some(t) = it.next() {
        return Some(t.span());
    }
    rest.to_token_stream().into_iter().next().map(|t| t.span())
}

impl<'a, 'ast> Visit<'ast> for FnFinder<'a> {
    fn visit_item_fn(&mut self, f: &'ast syn::ItemFn) {
        if self.sel.ty.is_none() && self.cur_impl.is_none() && f.sig.ident == self.sel.name {
            let whole = span_of(f);
            let bs = bare_start(&f.vis, &f.sig);
            let end = f.block.brace_token.span.close();
            self.hits.push(FnHit {
                whole,
                bare: bs.map(|b| r(b, end)),
                sig: span_of(&f.sig),
                body: Some(r(f.block.brace_token.span.open(), end)),
                block: (*f.block).clone(),
            });
        }
        syn::visit::visit_item_fn(self, f);
    }
    fn visit_item_impl(&mut self, i: &'ast syn::ItemImpl) {
        let prev = self.cur_impl.take();
        self.cur_impl = Some(impl_key(i));
        syn::visit::visit_item_impl(self, i);
        self.cur_impl = prev;
    }
    fn visit_impl_item_fn(&mut self, f: &'ast syn::ImplItemFn) {
        if let (Some(ty), Some((tr, ity))) = (&self.sel.ty, &self.cur_impl) {
            if ity.as_deref() == Some(ty.as_str()) && *tr == self.sel.tr && f.sig.ident == self.sel.name {
                let whole = span_of(f);
                let bs = bare_start(&f.vis, &f.sig);
                let end = f.block.brace_token.span.close();
                self.hits.push(FnHit {
                    whole,
                    bare: bs.map(|b| r(b, end)),
                    sig: span_of(&f.sig),
                    body: Some(r(f.block.brace_token.span.open(), end)),
                    block: f.block.clone(),
                });
            }
        }
        syn::visit::visit_impl_item_fn(self, f);
    }
}

fn find_fn(file: &syn::File, sel: &str) -> Vec<FnHit> {
    let sel = parse_fnsel(sel);
    let mut f = FnFinder { sel: &sel, cur_impl: None, hits: vec![] };
    f.visit_file(file);
    f.hits
}

struct ArmFinder {
    prefix: String,
    hits: Vec<(Option<R>, Option<R>, Option<R>, Option<R>)>,
}

impl<'ast> Visit<'ast> for ArmFinder {
    fn visit_arm(&mut self, a: &'ast syn::Arm) {
        let p = norm(&a.pat.to_token_stream().to_string());
        // the prefix may be preceded by further path segments (`lir::Instruction::Div`)
        let at = p.find(&self.prefix).filter(|&i| {
            let head = &p[..i];
            head.chars().all(|c| c.is_alphanumeric() || c == '_' || c == ':')
                && (head.is_empty() || head.ends_with("::"))
        });
        if let Some(at) = at {
            // make sure the prefix ends on a token boundary
            let rest = &p[at + self.prefix.len()..];
            let ok = rest.chars().next().map(|c| !(c.is_alphanumeric() || c == '_')).unwrap_or(true);
            if ok {
                let whole = {
                    let s = a.pat.to_token_stream().into_iter().next().map(|t| t.span());
                    let e = a.body.to_token_stream().into_iter().last().map(|t| t.span());
                    match (s, e) {
                        (Some(s), Some(e)) => Some(r(s, e)),
                        _ => None,
                    }
                };
                let guard = a.guard.as_ref().and_then(|(_, g)| span_of(&**g));
                self.hits.push((whole, span_of(&a.pat), span_of(&*a.body), guard));
            }
        }
        syn::visit::visit_arm(self, a);
    }
}

struct IfFinder {
    prefix: String,
    hits: Vec<(Option<R>, Option<R>, Option<R>)>,
}

impl<'ast> Visit<'ast> for IfFinder {
    fn visit_expr_if(&mut self, e: &'ast syn::ExprIf) {
        let c = norm(&e.cond.to_token_stream().to_string());
        if c.starts_with(&self.prefix) {
            let then = Some(r(e.then_branch.brace_token.span.open(), e.then_branch.brace_token.span.close()));
            self.hits.push((span_of(e), span_of(&*e.cond), then));
        }
        syn::visit::visit_expr_if(self, e);
    }
}

struct ItemFinder {
    kind: String,
    name: String,
    tr: Option<String>,
    hits: Vec<(Option<R>, Option<R>)>,
}

impl ItemFinder {
    fn push<T: ToTokens, U: ToTokens>(&mut self, whole: &T, vis: Option<&syn::Visibility>, after: &U) {
        let w = span_of(whole);
        let bs = match vis {
            Some(v) => bare_start(v, after),
            None => after.to_token_stream().into_iter().next().map(|t| t.span()),
        };
        let bare = match (bs, w) {
            (Some(b), Some(R(_, _, el, ec))) => {
                let s = b.start();
                Some(R(s.line, s.column, el, ec))
            }
            _ => None,
        };
        self.hits.push((w, bare));
    }
}

impl<'ast> Visit<'ast> for ItemFinder {
    fn visit_item(&mut self, it: &'ast syn::Item) {
        match it {
            syn::Item::Struct(s) if self.kind == "struct" && s.ident == self.name => {
                self.push(s, Some(&s.vis), &s.struct_token)
            }
            syn::Item::Enum(s) if self.kind == "enum" && s.ident == self.name => {
                self.push(s, Some(&s.vis), &s.enum_token)
            }
            syn::Item::Union(s) if self.kind == "union" && s.ident == self.name => {
                self.push(s, Some(&s.vis), &s.union_token)
            }
            syn::Item::Type(s) if self.kind == "type" && s.ident == self.name => {
                self.push(s, Some(&s.vis), &s.type_token)
            }
            syn::Item::Const(s) if self.kind == "const" && s.ident == self.name => {
                self.push(s, Some(&s.vis), &s.const_token)
            }
            syn::Item::Static(s) if self.kind == "static" && s.ident == self.name => {
                self.push(s, Some(&s.vis), &s.static_token)
            }
            syn::Item::Trait(s) if self.kind == "trait" && s.ident == self.name => {
                self.push(s, Some(&s.vis), &s.trait_token)
            }
            syn::Item::Mod(s) if self.kind == "mod" && s.ident == self.name => {
                self.push(s, Some(&s.vis), &s.mod_token)
            }
            syn::Item::Macro(m)
                if self.kind == "macro" && m.ident.as_ref().map(|i| i == &self.name).unwrap_or(false) =>
            {
                self.push(m, None, &m.mac)
            }
            syn::Item::Impl(i) if self.kind == "impl" => {
                let (tr, ty) = impl_key(i);
                if ty.as_deref() == Some(self.name.as_str()) && tr == self.tr {
                    let w = span_of(i);
                    let bs = i
                        .defaultness
                        .as_ref()
                        .map(|d| d.span())
                        .or(i.unsafety.as_ref().map(|u| u.span()))
                        .unwrap_or(i.impl_token.span());
                    let bare = w.map(|R(_, _, el, ec)| {
                        let s = bs.start();
                        R(s.line, s.column, el, ec)
                    });
                    self.hits.push((w, bare));
                }
            }
            _ => {}
        }
        syn::visit::visit_item(self, it);
    }
}

struct MacroFinder {
    name: String,
    hits: Vec<(TokenStream, Option<R>, Option<R>)>,
}

impl<'ast> Visit<'ast> for MacroFinder {
    fn visit_macro(&mut self, m: &'ast syn::Macro) {
        if path_last_ident(&m.path).as_deref() == Some(self.name.as_str()) {
            let rg = span_of(&m.tokens);
            self.hits.push((m.tokens.clone(), rg, span_of(m)));
        }
        syn::visit::visit_macro(self, m);
    }
}

fn split_index(s: &str) -> (&str, usize) {
    match s.rsplit_once('#') {
        Some((a, k)) if k.chars().all(|c| c.is_ascii_digit()) && !k.is_empty() => (a, k.parse().unwrap()),
        _ => (s, 0),
    }
}

fn run_selector(file: &syn::File, sel: &str) -> String {
    let (kind, rest) = match sel.split_once(':') {
        Some(x) => x,
        None => return "{\"found\":false,\"error\":\"bad selector\"}".into(),
    };
    match kind {
        "fn" => {
            let (s, k) = split_index(rest);
            let hits = find_fn(file, s);
            match hits.get(k) {
                Some(h) => format!(
                    "{{\"found\":true,\"count\":{},\"ranges\":{}}}",
                    hits.len(),
                    json_ranges(&[("whole", h.whole), ("bare", h.bare), ("sig", h.sig), ("body", h.body)])
                ),
                None => format!("{{\"found\":false,\"count\":{}}}", hits.len()),
            }
        }
        "arm" => {
            let (fnsel, pat) = match rest.split_once('|') {
                Some(x) => x,
                None => return "{\"found\":false,\"error\":\"arm needs FN|PAT\"}".into(),
            };
            let (pat, k) = split_index(pat);
            let fns = find_fn(file, fnsel);
            let Some(f) = fns.first() else {
                return "{\"found\":false,\"error\":\"fn not found\"}".into();
            };
            let mut af = ArmFinder { prefix: norm(pat), hits: vec![] };
            af.visit_block(&f.block);
            match af.hits.get(k) {
                Some((w, p, b, g)) => format!(
                    "{{\"found\":true,\"count\":{},\"ranges\":{}}}",
                    af.hits.len(),
                    json_ranges(&[("whole", *w), ("pat", *p), ("body", *b), ("guard", *g)])
                ),
                None => format!("{{\"found\":false,\"count\":{}}}", af.hits.len()),
            }
        }
        "ifthen" => {
            // ifthen:FNSEL|COND_PREFIX[#k] -> the k-th `if` in the function whose condition starts with the prefix
            let (fnsel, cond) = match rest.split_once('|') {
                Some(x) => x,
                None => return "{\"found\":false,\"error\":\"ifthen needs FN|COND\"}".into(),
            };
            let (cond, k) = split_index(cond);
            let fns = find_fn(file, fnsel);
            let Some(f) = fns.first() else {
                return "{\"found\":false,\"error\":\"fn not found\"}".into();
            };
            let mut af = IfFinder { prefix: norm(cond), hits: vec![] };
            af.visit_block(&f.block);
            match af.hits.get(k) {
                Some((w, c, t)) => format!(
                    "{{\"found\":true,\"count\":{},\"ranges\":{}}}",
                    af.hits.len(),
                    json_ranges(&[("whole", *w), ("cond", *c), ("then", *t)])
                ),
                None => format!("{{\"found\":false,\"count\":{}}}", af.hits.len()),
            }
        }
        "item" => {
            let (s, k) = split_index(rest);
            let (ikind, name) = match s.trim().split_once(' ') {
                Some(x) => x,
                None => return "{\"found\":false,\"error\":\"item needs KIND NAME\"}".into(),
            };
            let (tr, name) = match name.split_once(" for ") {
                Some((t, n)) => (Some(t.trim().to_string()), n.trim()),
                None => (None, name.trim()),
            };
            let mut f = ItemFinder { kind: ikind.to_string(), name: name.to_string(), tr, hits: vec![] };
            f.visit_file(file);
            match f.hits.get(k) {
                Some((w, b)) => format!(
                    "{{\"found\":true,\"count\":{},\"ranges\":{}}}",
                    f.hits.len(),
                    json_ranges(&[("whole", *w), ("bare", *b)])
                ),
                None => format!("{{\"found\":false,\"count\":{}}}", f.hits.len()),
            }
        }
        "macrotokens" | "inmacro" | "macrocall" => {
            let (head, inner) = match rest.split_once('|') {
                Some((h, i)) => (h, Some(i)),
                None => (rest, None),
            };
            let (name, k) = split_index(head);
            let mut mf = MacroFinder { name: name.to_string(), hits: vec![] };
            mf.visit_file(file);
            let Some((ts, rg, whole)) = mf.hits.get(k) else {
                return format!("{{\"found\":false,\"count\":{}}}", mf.hits.len());
            };
            if kind == "macrocall" {
                // the whole invocation `name!(..)` / `name!{..}` (without a trailing semicolon)
                return format!(
                    "{{\"found\":true,\"count\":{},\"ranges\":{}}}",
                    mf.hits.len(),
                    json_ranges(&[("whole", *whole)])
                );
            }
            if kind == "macrotokens" {
                return format!(
                    "{{\"found\":true,\"count\":{},\"ranges\":{}}}",
                    mf.hits.len(),
                    json_ranges(&[("whole", *rg)])
                );
            }
            match syn::parse2::<syn::File>(ts.clone()) {
                Ok(f) => run_selector(&f, inner.unwrap_or("")),
                Err(e) => format!("{{\"found\":false,\"error\":\"macro tokens do not parse as items: {}\"}}", e.to_string().replace('"', "'")),
            }
        }
        _ => "{\"found\":false,\"error\":\"unknown selector kind\"}".into(),
    }
}

fn main() {
    let args: Vec<String> = std::env::args().collect();
    if args.len() < 2 {
        eprintln!("usage: rx <file.rs> <selector>...");
        std::process::exit(2);
    }
    let src = match std::fs::read_to_string(&args[1]) {
        Ok(s) => s,
        Err(e) => {
            eprintln!("rx: cannot read {}: {}", args[1], e);
            std::process::exit(2);
        }
    };
    let file = match syn::parse_file(&src) {
        Ok(f) => f,
        Err(e) => {
            eprintln!("rx: cannot parse {}: {}", args[1], e);
            std::process::exit(3);
        }
    };
    for sel in &args[2..] {
        println!("{}", run_selector(&file, sel));
    }
}
