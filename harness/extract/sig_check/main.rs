// K-ex unit `sig_check` — assembled on every run by /verif/check.
// Text that replaced a fragment marker is verbatim source of /repo.
#![allow(dead_code, unused_imports, unused_variables, unused_mut, unused_macros, non_snake_case)]

// error text is not part of the property
macro_rules! format {
    ($($t:tt)*) => {
        String::new()
    };
}

pub mod any {
    /// symbolic-friendly stand-in for std::any::TypeId
    #[derive(Clone, Copy, Debug, PartialEq, Eq, Hash)]
    pub struct TypeId(pub u8);
    impl TypeId {
        /// same observable behaviour as std::any::TypeId::of on the types nameable through the public
        /// API (distinct types <-> distinct ids); any other type gets 255
        pub fn of<T: 'static + ?Sized>() -> TypeId {
            let t = std::any::TypeId::of::<T>();
            macro_rules! tid {
                ($($ty:ty = $n:expr),*) => {$(if t == std::any::TypeId::of::<$ty>() { return TypeId($n); })*};
            }
            tid!(bool = 0, char = 1, u8 = 2, u16 = 3, u32 = 4, u64 = 5, i8 = 6, i16 = 7, i32 = 8, i64 = 9, f32 = 10, f64 = 11, () = 12,
                 crate::leaf::Asn = 13, crate::leaf::IpAddr = 14, crate::leaf::Prefix = 15, crate::RotoString = 16);
            // the harness's marker types R<N> stand for the Rust type with id N
            macro_rules! rid {
                ($($n:expr),*) => {$(if t == std::any::TypeId::of::<crate::value::R<$n>>() { return TypeId($n); })*};
            }
            rid!(0, 1, 2, 3, 4, 5, 6, 7, 8, 9, 10, 11, 12, 13, 14, 15, 16);
            TypeId(255)
        }
    }
}
pub mod leaf {
    pub struct Asn;
    pub struct IpAddr;
    pub struct Prefix;
}
pub struct RotoString;

pub mod ast {
    #[derive(Clone, Copy, Debug, PartialEq, Eq, PartialOrd, Ord, Hash)]
    pub struct Identifier(pub u32);
    impl Identifier {
        /// inverse of From<&str> (the real Identifier is an interned string)
        pub fn as_str(&self) -> &'static str {
            match self.0 {
                0 => "bool",
                1 => "char",
                2 => "u8",
                3 => "u16",
                4 => "u32",
                5 => "u64",
                6 => "i8",
                7 => "i16",
                8 => "i32",
                9 => "i64",
                10 => "f32",
                11 => "f64",
                13 => "Asn",
                14 => "IpAddr",
                15 => "Prefix",
                16 => "String",
                17 => "Verdict",
                18 => "Result",
                19 => "Option",
                20 => "List",
                21 => "Host",
                _ => "?",
            }
        }
    }
    impl From<&str> for Identifier {
        /// injective on the type names that occur in the unit
        fn from(s: &str) -> Self {
            Identifier(match s {
                "bool" => 0,
                "char" => 1,
                "u8" => 2,
                "u16" => 3,
                "u32" => 4,
                "u64" => 5,
                "i8" => 6,
                "i16" => 7,
                "i32" => 8,
                "i64" => 9,
                "f32" => 10,
                "f64" => 11,
                "Asn" => 13,
                "IpAddr" => 14,
                "Prefix" => 15,
                "String" => 16,
                "Verdict" => 17,
                "Result" => 18,
                "Option" => 19,
                "List" => 20,
                "Host" => 21,
                _ => 99,
            })
        }
    }
}

pub mod parser {
    #[path = "/repo/src/parser/meta.rs"]
    pub mod meta;
}

pub mod typechecker {
    pub mod scope {
        use crate::ast::Identifier;
        #[derive(Clone, Copy, Debug, PartialEq, Eq, PartialOrd, Ord, Hash)]
        pub struct ScopeRef(pub usize);
        impl ScopeRef {
            pub const GLOBAL: Self = Self(0);
        }
        #[derive(Clone, Copy, Debug, PartialEq, Eq, PartialOrd, Ord, Hash)]
        pub struct ResolvedName {
            pub scope: ScopeRef,
            pub ident: Identifier,
        }
    }
    pub mod scoped_display {
        use super::info::TypeInfo;
        pub struct Shown;
        impl core::fmt::Display for Shown {
            fn fmt(&self, _f: &mut core::fmt::Formatter<'_>) -> core::fmt::Result {
                Ok(())
            }
        }
        impl Shown {
            pub fn to_string(&self) -> String {
                String::new()
            }
        }
        pub trait TypeDisplay: Sized {
            fn display(&self, _type_info: &TypeInfo) -> Shown {
                Shown
            }
        }
        impl TypeDisplay for super::types::Type {}
    }
    pub mod types {
        use super::scope::{ResolvedName, ScopeRef};
        use crate::any::TypeId;
        use crate::ast::Identifier;
        use crate::parser::meta::Meta;

        /// Reduced stand-in for the type checker's `Type` (a recursive heap type whose drop/clone
        /// glue CBMC cannot unwind): the variants the unit matches on, `Copy`, arguments as a
        /// static slice.  Variant and field names are the real ones.
        #[derive(Clone, Copy, Debug, PartialEq, Eq)]
        pub enum Type {
            Var(usize),
            IntVar(usize, MustBeSigned),
            FloatVar(usize),
            Unit,
            Never,
            Name(TypeName),
        }
        #[derive(Clone, Copy, Debug, PartialEq, Eq)]
        pub struct TypeName {
            pub name: ResolvedName,
            pub arguments: &'static [Type],
        }

        /*@ENUM_MUSTBESIGNED@*/

        impl Type {
            /// same signature as the real Type::named; the unit only ever passes an empty argument list
            pub fn named(ident: impl Into<Identifier>, arguments: Vec<Type>) -> Type {
                assert!(arguments.is_empty());
                Type::Name(TypeName { name: ResolvedName { scope: ScopeRef::GLOBAL, ident: ident.into() }, arguments: &[] })
            }
        }

        /// reduced `Signature`: the two fields get_function reads (`types` dropped), lists as static slices
        #[derive(Clone, Copy, Debug, PartialEq, Eq)]
        pub struct Signature {
            pub parameter_types: &'static [Type],
            pub return_type: Type,
        }

        /// reduced: only the variant the unit matches on, plus "anything else"
        #[derive(Clone, Debug, PartialEq, Eq, Hash)]
        pub enum TypeDefinition {
            Runtime(ResolvedName, TypeId),
            Other,
        }
    }
    pub mod info {
        use super::scope::ResolvedName;
        use super::types::{Type, TypeDefinition};
        use crate::any::TypeId;
        pub struct TypeInfo {
            /// the one registered host type: its Roto name and the Rust type it was registered with
            pub host: (ResolvedName, TypeId),
        }
        impl TypeInfo {
            pub fn resolve(&mut self, t: &Type) -> Type {
                *t
            }
            pub fn resolve_type_name(&mut self, name: ResolvedName) -> TypeDefinition {
                if name == self.host.0 { TypeDefinition::Runtime(name, self.host.1) } else { TypeDefinition::Other }
            }
        }
    }
}

pub mod value {
    use crate::any::TypeId;

    /*@ENUM_TYPEDESCRIPTION@*/

    pub struct Ty {
        pub rust_name: &'static str,
        pub type_id: TypeId,
        pub description: TypeDescription,
    }

    pub const NREG: usize = 24;
    /// the registry the harness fills: entry i describes TypeId(i)
    pub static mut REGISTRY: [Option<TypeDescription>; NREG] = [None; NREG];

    pub struct TypeRegistry;
    impl TypeRegistry {
        pub fn get(id: TypeId) -> Option<Ty> {
            let d = unsafe { if (id.0 as usize) < NREG { REGISTRY[id.0 as usize] } else { None } };
            d.map(|description| Ty { rust_name: "", type_id: id, description })
        }
        pub fn resolve<T: Value>() -> Ty {
            T::resolve()
        }
    }

    /// the part of `Value` that func! uses
    pub trait Value: Sized + 'static {
        type Transformed;
        type AsParam;
        fn transform(self) -> Self::Transformed;
        fn untransform(t: Self::Transformed) -> Self;
        fn as_param(t: &mut Self::Transformed) -> Self::AsParam;
        fn resolve() -> Ty;
    }
    /// marker Rust type whose TypeId is N
    pub struct R<const N: u8>;
    impl<const N: u8> Value for R<N> {
        type Transformed = u8;
        type AsParam = u8;
        fn transform(self) -> u8 {
            0
        }
        fn untransform(_t: u8) -> Self {
            R
        }
        fn as_param(t: &mut u8) -> u8 {
            *t
        }
        fn resolve() -> Ty {
            Ty { rust_name: "", type_id: TypeId(N), description: TypeDescription::Leaf }
        }
    }
}

pub mod codegen {
    #[allow(unused_imports)]
    use crate::any::TypeId;
    use crate::typechecker::{info::TypeInfo, types};
    use check::{check_roto_type_reflect, FunctionRetrievalError, RotoFunc};
    use std::marker::PhantomData;

    pub trait OptCtx {}
    pub struct NoCtx;
    impl OptCtx for NoCtx {}

    /// function names are interned: `Name(k)`; `format!("pkg.{name}")` becomes `pkg_name(name)`
    #[derive(Clone, Copy, Debug, PartialEq, Eq)]
    pub struct Name(pub u32);
    impl Name {
        pub fn to_string(&self) -> String {
            String::new()
        }
    }
    pub fn pkg_name(name: Name) -> Name {
        Name(name.0 + 0x100)
    }
    #[derive(Clone, Copy, Debug, PartialEq, Eq)]
    pub struct FuncId(pub u32);
    /// stand-in for cranelift_jit::JITModule: the finalized address of function `id`
    #[derive(Clone, Copy)]
    pub struct Jit;
    impl Jit {
        pub fn get_finalized_function(&self, id: FuncId) -> *const u8 {
            (0x1000 + id.0 as usize * 16) as *const u8
        }
    }
    #[derive(Clone, Copy)]
    pub struct ModuleData {
        pub cranelift_jit: Jit,
    }
    /// stand-in for SharedModuleData(Arc<ModuleData>): `token` identifies the module kept alive
    #[derive(Clone, Copy)]
    pub struct SharedModuleData(pub ModuleData, pub u32);
    /// stand-in for HashMap<String, FunctionInfo>
    pub struct Functions {
        pub entries: [Option<(Name, FunctionInfo)>; 3],
    }
    impl Functions {
        pub fn get(&self, k: &Name) -> Option<&FunctionInfo> {
            let mut i = 0;
            while i < 3 {
                if let Some((n, f)) = &self.entries[i] {
                    if n == k {
                        return Some(f);
                    }
                }
                i += 1;
            }
            None
        }
        pub fn keys(&self) -> core::iter::Empty<&String> {
            core::iter::empty()
        }
    }

    /*@STRUCT_FUNCTIONINFO@*/

    /*@STRUCT_TYPEDFUNC@*/

    pub struct Module<C: OptCtx> {
        pub functions: Functions,
        pub inner: SharedModuleData,
        pub type_info: TypeInfo,
        pub _ctx: PhantomData<C>,
    }

    impl<Ctx: OptCtx> Module<Ctx> {
        pub fn get_function<F: RotoFunc>(
            &mut self,
            name: Name,
        ) -> Result<TypedFunc<Ctx, F>, FunctionRetrievalError>
        /*@FN_GET_FUNCTION_BODY@*/
    }

    pub mod check {
        use crate::leaf::{Asn, IpAddr, Prefix};
        use crate::{
            any::TypeId,
            typechecker::{
                info::TypeInfo,
                scope::{ResolvedName, ScopeRef},
                scoped_display::TypeDisplay,
                types::{Type, TypeDefinition},
            },
            value::{TypeDescription, TypeRegistry, Value},
            RotoString,
        };
        use std::{fmt::Display, mem::MaybeUninit};

        /*@ENUM_FRE@*/

        /*@STRUCT_TYPEMISMATCH@*/

        /*@FN_REFLECT@*/

        /*@FN_CHECK@*/

        // ---- inductive-step copy: recursive calls redirected to the callee contract
        pub static mut CALLEE_LOG: [(u8, usize); 2] = [(0, 0); 2];
        pub static mut CALLEE_N: usize = 0;
        pub static mut CALLEE_ANSWER: [bool; 2] = [false; 2];
        /// callee contract of the recursive calls: an arbitrary verdict per call (what a correct check
        /// of the sub-types answers is decided by the harness), recording what was asked
        fn check_roto_type_callee(_type_info: &mut TypeInfo, rust_type: TypeId, roto_type: &Type) -> Result<(), TypeMismatch> {
            unsafe {
                assert!(CALLEE_N < 2, "shim: more than two sub-checks");
                CALLEE_LOG[CALLEE_N] = (rust_type.0, roto_type as *const Type as usize);
                let a = CALLEE_ANSWER[CALLEE_N];
                CALLEE_N += 1;
                if a {
                    Ok(())
                } else {
                    Err(TypeMismatch { rust_type: String::new(), roto_type: String::new() })
                }
            }
        }
        /*@FN_CHECK_STEP@*/

        /*@TRAIT_ROTOFUNC@*/

        /*@MACRO_UNIT@*/

        /*@MACRO_FUNC@*/

        /*@CALL_FUNC0@*/;
        /*@CALL_FUNC1@*/;
        /*@CALL_FUNC2@*/;
        /*@CALL_FUNC3@*/;
        /*@CALL_FUNC4@*/;
        /*@CALL_FUNC5@*/;
        /*@CALL_FUNC6@*/;
        /*@CALL_FUNC7@*/;

        include!("harness.rs");
        include!("harness_modular.rs");
    }
}

fn main() {}
