// Contracts (C04): "retrieving a function succeeds if and only if the requested Rust function
// type has the same number of parameters and, position by position, the Rust type that the
// documented mapping assigns to the Roto type, recursively through Option, Result, Verdict and
// List and by identity for registered types".
mod h {
    use super::*;
    use crate::ast::Identifier;
    use crate::value::{R, REGISTRY, NREG};

    const VERDICT: u32 = 17;
    const RESULT: u32 = 18;
    const OPTION: u32 = 19;
    const LIST: u32 = 20;
    const HOST: u32 = 21;

    fn named(ident: u32, args: &'static [Type]) -> Type {
        Type::Name(crate::typechecker::types::TypeName { name: ResolvedName { scope: ScopeRef::GLOBAL, ident: Identifier(ident) }, arguments: args })
    }
    /// argument lists live in leaked boxes (`&'static [Type]`, no drop glue)
    fn args1(a: Type) -> &'static [Type] {
        Box::leak(Box::new([a]))
    }
    fn args2(a: Type, b: Type) -> &'static [Type] {
        Box::leak(Box::new([a, b]))
    }
    fn args3(a: Type, b: Type, c: Type) -> &'static [Type] {
        Box::leak(Box::new([a, b, c]))
    }
    /// the Roto type the documented mapping assigns to leaf Rust type id k (0..=16)
    fn roto_leaf(k: u8) -> Type {
        if k == 12 { Type::Unit } else { named(k as u32, &[]) }
    }
    fn leaves() {
        let l = Some(TypeDescription::Leaf);
        unsafe {
            REGISTRY = [l, l, l, l, l, l, l, l, l, l, l, l, l, l, l, l, l, None, None, None, None, None, None, None];
        }
    }
    fn info() -> TypeInfo {
        TypeInfo { host: (ResolvedName { scope: ScopeRef::GLOBAL, ident: Identifier(HOST) }, TypeId(17)) }
    }
    fn any_leaf_id() -> u8 {
        let k: u8 = kani::any();
        kani::assume(k <= 16);
        k
    }
    fn any_ident() -> u32 {
        let k: u32 = kani::any();
        kani::assume(k <= 21);
        k
    }

    /// leaf vs leaf: Ok exactly for the same-named primitive ( () <-> Unit ), for all 17 x 23 pairs
    macro_rules! leaf_case {
        ($name:ident, $rust:expr) => {
    #[kani::proof]
    #[kani::unwind(10)]
    fn $name() {
        leaves();
        let mut ti = info();
        let rust: u8 = $rust;
        let x = any_ident();
        let is_unit: bool = kani::any();
        let roto = if is_unit { Type::Unit } else { named(x, &[]) };
        let res = check_roto_type(&mut ti, TypeId(rust), &roto);
        let want = if rust == 12 { is_unit } else { !is_unit && x == rust as u32 };
        assert!(res.is_ok() == want, "OBL:C04.check.leaf_ok_iff_same_named_primitive");
        kani::cover!(res.is_ok(), "COV:C04.check.leaf_ok_reached");
        kani::cover!(res.is_err() && !is_unit && x <= 16, "COV:C04.check.other_primitive_rejected_reached");
    }
        };
    }
    leaf_case!(c04_u1_leaf_00, 0);
    leaf_case!(c04_u1_leaf_01, 1);
    leaf_case!(c04_u1_leaf_02, 2);
    leaf_case!(c04_u1_leaf_03, 3);
    leaf_case!(c04_u1_leaf_04, 4);
    leaf_case!(c04_u1_leaf_05, 5);
    leaf_case!(c04_u1_leaf_06, 6);
    leaf_case!(c04_u1_leaf_07, 7);
    leaf_case!(c04_u1_leaf_08, 8);
    leaf_case!(c04_u1_leaf_09, 9);
    leaf_case!(c04_u1_leaf_10, 10);
    leaf_case!(c04_u1_leaf_11, 11);
    leaf_case!(c04_u1_leaf_12, 12);
    leaf_case!(c04_u1_leaf_13, 13);
    leaf_case!(c04_u1_leaf_14, 14);
    leaf_case!(c04_u1_leaf_15, 15);
    leaf_case!(c04_u1_leaf_16, 16);


    /// unsuffixed literals: an integer type variable counts as i32, a float type variable as f64
    macro_rules! literal_default_case {
        ($name:ident, $rust:expr) => {
    #[kani::proof]
    #[kani::unwind(10)]
    fn $name() {
        leaves();
        let mut ti = info();
        let rust: u8 = $rust;
        let is_int: bool = kani::any();
        let roto = if is_int { Type::IntVar(3, crate::typechecker::types::MustBeSigned::No) } else { Type::FloatVar(3) };
        let res = check_roto_type(&mut ti, TypeId(rust), &roto);
        assert!(res.is_ok() == (if is_int { rust == 8 } else { rust == 11 }), "OBL:C04.check.int_var_is_i32_float_var_is_f64");
        kani::cover!(true, "COV:C04.check.default_reached");
    }
        };
    }
    literal_default_case!(c04_u1_literal_defaults_i32, 8);
    literal_default_case!(c04_u1_literal_defaults_f64, 11);
    literal_default_case!(c04_u1_literal_defaults_u64, 5);
    literal_default_case!(c04_u1_literal_defaults_f32, 10);
    literal_default_case!(c04_u1_literal_defaults_i64, 9);


    /// one-argument constructors (Option, List): Ok iff the Roto type is the global type of that
    /// name with exactly one argument that maps to the Rust argument
    macro_rules! option_list_case {
        ($name:ident, $inner:expr, $is_list:expr) => {
    #[kani::proof]
    #[kani::unwind(10)]
    fn $name() {
        leaves();
        let inner: u8 = $inner;
        let is_list: bool = $is_list;
        unsafe {
            REGISTRY[18] = Some(if is_list { TypeDescription::List(TypeId(inner)) } else { TypeDescription::Option(TypeId(inner)) });
        }
        let mut ti = info();
        let x = any_ident();
        let y = any_ident();
        let nargs: u8 = kani::any();
        kani::assume(nargs <= 2);
        let args: &'static [Type] = match nargs {
            0 => &[],
            1 => args1(named(y, &[])),
            _ => args2(named(y, &[]), named(y, &[])),
        };
        let roto = named(x, args);
        let res = check_roto_type(&mut ti, TypeId(18), &roto);
        let want = x == (if is_list { LIST } else { OPTION }) && nargs == 1 && inner != 12 && y == inner as u32;
        assert!(res.is_ok() == want, "OBL:C04.check.option_list_ok_iff_same_constructor_and_argument");
        kani::cover!(res.is_ok(), "COV:C04.check.one_arg_ok_reached");
        kani::cover!(res.is_err() && (x == OPTION || x == LIST) && nargs == 1, "COV:C04.check.other_constructor_or_argument_rejected_reached");
    }
        };
    }
    option_list_case!(c04_u1_option_u8, 2, false);
    option_list_case!(c04_u1_option_string, 16, false);
    option_list_case!(c04_u1_option_i64, 9, false);
    option_list_case!(c04_u1_list_u8, 2, true);
    option_list_case!(c04_u1_list_asn, 13, true);


    /// two-argument constructors (Result, Verdict): argument order is preserved, not swapped
    macro_rules! result_verdict_case {
        ($name:ident, $a:expr, $b:expr, $is_verdict:expr) => {
    #[kani::proof]
    #[kani::unwind(10)]
    fn $name() {
        leaves();
        let (a, b): (u8, u8) = ($a, $b);
        let is_verdict: bool = $is_verdict;
        unsafe {
            REGISTRY[18] = Some(if is_verdict { TypeDescription::Verdict(TypeId(a), TypeId(b)) } else { TypeDescription::Result(TypeId(a), TypeId(b)) });
        }
        let mut ti = info();
        let x = any_ident();
        let (y, z) = (any_ident(), any_ident());
        let nargs: u8 = kani::any();
        kani::assume(nargs >= 1 && nargs <= 3);
        let args: &'static [Type] = match nargs {
            1 => args1(named(y, &[])),
            2 => args2(named(y, &[]), named(z, &[])),
            _ => args3(named(y, &[]), named(z, &[]), named(z, &[])),
        };
        let roto = named(x, args);
        let res = check_roto_type(&mut ti, TypeId(18), &roto);
        let want = x == (if is_verdict { VERDICT } else { RESULT }) && nargs == 2 && y == a as u32 && z == b as u32;
        assert!(res.is_ok() == want, "OBL:C04.check.result_verdict_ok_iff_same_constructor_and_arguments_in_order");
        kani::cover!(res.is_err() && nargs == 2 && y == b as u32 && z == a as u32, "COV:C04.check.swapped_arguments_reached");
        kani::cover!(res.is_ok(), "COV:C04.check.two_arg_ok_reached");
    }
        };
    }
    result_verdict_case!(c04_u1_result_u8_i64, 2, 9, false);
    result_verdict_case!(c04_u1_result_string_bool, 16, 0, false);
    result_verdict_case!(c04_u1_verdict_u32_i32, 4, 8, true);
    result_verdict_case!(c04_u1_verdict_asn_prefix, 13, 15, true);


    /// nesting: Option<Option<T>> / Option<List<T>> are checked recursively
    macro_rules! nested_case {
        ($name:ident, $inner:expr, $inner_is_list:expr) => {
    #[kani::proof]
    #[kani::unwind(10)]
    fn $name() {
        leaves();
        let inner: u8 = $inner;
        let inner_is_list: bool = $inner_is_list;
        unsafe {
            REGISTRY[18] = Some(if inner_is_list { TypeDescription::List(TypeId(inner)) } else { TypeDescription::Option(TypeId(inner)) });
            REGISTRY[19] = Some(TypeDescription::Option(TypeId(18)));
        }
        let mut ti = info();
        let (x, y, z) = (any_ident(), any_ident(), any_ident());
        let roto = named(x, args1(named(y, args1(named(z, &[])))));
        let res = check_roto_type(&mut ti, TypeId(19), &roto);
        let want = x == OPTION && y == (if inner_is_list { LIST } else { OPTION }) && z == inner as u32;
        assert!(res.is_ok() == want, "OBL:C04.check.nesting_is_checked_recursively");
        kani::cover!(res.is_ok(), "COV:C04.check.nested_ok_reached");
    }
        };
    }
    nested_case!(c04_u1_option_option_u16, 3, false);
    nested_case!(c04_u1_option_list_string, 16, true);


    /// registered host types (Val<T>): by identity of the registered Rust type; unregistered Rust types are refused
    #[kani::proof]
    #[kani::unwind(10)]
    fn c04_u1_val_and_unregistered() {
        leaves();
        let reg_id: u8 = kani::any();
        kani::assume(reg_id == 17 || reg_id == 20);
        unsafe {
            REGISTRY[17] = Some(TypeDescription::Val(TypeId(17)));
            REGISTRY[20] = Some(TypeDescription::Val(TypeId(20)));
        }
        let mut ti = info(); // Roto type `Host` was registered with Rust type 17
        let x = any_ident();
        let roto = named(x, &[]);
        let res = check_roto_type(&mut ti, TypeId(reg_id), &roto);
        assert!(res.is_ok() == (x == HOST && reg_id == 17), "OBL:C04.check.val_ok_iff_same_registered_rust_type");
        let res2 = check_roto_type(&mut ti, TypeId(23), &roto);
        assert!(res2.is_err(), "OBL:C04.check.unregistered_rust_type_is_refused");
        kani::cover!(res.is_err() && x == HOST, "COV:C04.check.other_host_type_rejected_reached");
    }

    /// check_args: arity must be equal, and argument i is checked against parameter i
    macro_rules! arity {
        ($name:ident, $n:expr, $f:ty) => {
            #[kani::proof]
            #[kani::unwind(10)]
            fn $name() {
                leaves();
                let mut ti = info();
                let m: usize = kani::any();
                kani::assume(m <= 8);
                // parameter i of the script function has the leaf type number i (bool, char, u8, ...)
                let odd: usize = kani::any();
                kani::assume(odd < 9);
                // optionally one parameter (index `odd`) has another type (i64)
                let p = |i: usize| roto_leaf(if i == odd { 9 } else { i as u8 });
                let all = [p(0), p(1), p(2), p(3), p(4), p(5), p(6), p(7)];
                let params: &[Type] = &all[..m];
                let res = <$f as RotoFunc>::check_args(&mut ti, params);
                let n: usize = $n;
                if m != n {
                    assert!(matches!(res, Err(FunctionRetrievalError::IncorrectNumberOfArguments { expected, got }) if expected == m && got == n), "OBL:C04.args.different_arity_is_refused");
                } else if odd < n {
                    assert!(matches!(res, Err(FunctionRetrievalError::TypeMismatch(..))), "OBL:C04.args.mismatch_at_any_position_is_refused");
                } else {
                    assert!(res.is_ok(), "OBL:C04.args.true_signature_is_accepted");
                }
                kani::cover!(m + 1 == n || m == n + 1, "COV:C04.args.off_by_one_arity_reached");
            }
        };
    }
    arity!(c04_u2_args_0, 0, fn() -> R<12>);
    arity!(c04_u2_args_1, 1, fn(R<0>) -> R<12>);
    arity!(c04_u2_args_2, 2, fn(R<0>, R<1>) -> R<12>);
    arity!(c04_u2_args_3, 3, fn(R<0>, R<1>, R<2>) -> R<12>);
    arity!(c04_u2_args_4, 4, fn(R<0>, R<1>, R<2>, R<3>) -> R<12>);
    arity!(c04_u2_args_5, 5, fn(R<0>, R<1>, R<2>, R<3>, R<4>) -> R<12>);
    arity!(c04_u2_args_6, 6, fn(R<0>, R<1>, R<2>, R<3>, R<4>, R<5>) -> R<12>);
    arity!(c04_u2_args_7, 7, fn(R<0>, R<1>, R<2>, R<3>, R<4>, R<5>, R<6>) -> R<12>);

    #[kani::proof]
    #[kani::unwind(10)]
    fn canary_c04_u1_leaf() {
        leaves();
        let mut ti = info();
        let res = check_roto_type(&mut ti, TypeId(4), &roto_leaf(4));
        assert!(res.is_err(), "CANARY:C04.check.leaf_never_matches");
    }

    // ---- C04-U3: Module::get_function -------------------------------------------------------
    use crate::codegen::{FuncId, FunctionInfo, Functions, Jit, Module, ModuleData, Name, NoCtx, SharedModuleData, TypedFunc};
    use crate::typechecker::types::Signature;

    /// package with: f(bool-leaf 0, leaf 1) -> leaf 2;  g = compiler-generated helper (no signature);
    /// h() -> ();  every id / return_by_ref flag symbolic (ids pairwise different)
    fn package() -> (Module<NoCtx>, [FuncId; 3], [bool; 3]) {
        leaves();
        let ids = [FuncId(kani::any()), FuncId(kani::any()), FuncId(kani::any())];
        kani::assume(ids[0].0 < 1000 && ids[1].0 < 1000 && ids[2].0 < 1000);
        kani::assume(ids[0] != ids[1] && ids[1] != ids[2] && ids[0] != ids[2]);
        let rbr: [bool; 3] = kani::any();
        let sig_f = Signature { parameter_types: args2(roto_leaf(0), roto_leaf(1)), return_type: roto_leaf(2) };
        let sig_h = Signature { parameter_types: &[], return_type: Type::Unit };
        let m = Module {
            functions: Functions {
                entries: [
                    Some((Name(0x101), FunctionInfo { id: ids[0], signature: Some(sig_f), return_by_ref: rbr[0] })),
                    Some((Name(0x102), FunctionInfo { id: ids[1], signature: None, return_by_ref: rbr[1] })),
                    Some((Name(0x103), FunctionInfo { id: ids[2], signature: Some(sig_h), return_by_ref: rbr[2] })),
                ],
            },
            inner: SharedModuleData(ModuleData { cranelift_jit: Jit }, 77),
            type_info: info(),
            _ctx: core::marker::PhantomData,
        };
        (m, ids, rbr)
    }

    macro_rules! get_function_case {
        // $which: Some(i) = must succeed with the handle of entry i; None = must be refused
        ($name:ident, $f:ty, $req:expr, $which:expr, $obl:literal) => {
            #[kani::proof]
            #[kani::unwind(10)]
            fn $name() {
                let (mut m, ids, rbr) = package();
                let res: Result<TypedFunc<NoCtx, $f>, FunctionRetrievalError> = m.get_function::<$f>(Name($req));
                let which: Option<usize> = $which;
                match (which, &res) {
                    (Some(i), Ok(tf)) => {
                        assert!(tf.func == Jit.get_finalized_function(ids[i]), "OBL:C04.get.handle_is_the_machine_code_of_the_named_function");
                        assert!(tf.return_by_ref == rbr[i], "OBL:C04.get.handle_uses_the_calling_convention_of_the_named_function");
                        assert!(tf._module.1 == 77, "OBL:C04.get.handle_keeps_its_own_module_alive");
                    }
                    (None, Err(_)) => {}
                    _ => assert!(false, $obl),
                }
                kani::cover!(res.is_ok() == which.is_some(), "COV:C04.get.reached");
                core::mem::forget(res);
            }
        };
    }
    get_function_case!(c04_u3_get_true_signature, fn(R<0>, R<1>) -> R<2>, 1, Some(0), "OBL:C04.get.true_signature_is_accepted");
    get_function_case!(c04_u3_get_nullary_unit, fn() -> R<12>, 3, Some(2), "OBL:C04.get.true_signature_is_accepted");
    get_function_case!(c04_u3_get_wrong_return, fn(R<0>, R<1>) -> R<3>, 1, None, "OBL:C04.get.wrong_return_type_is_refused");
    get_function_case!(c04_u3_get_unit_return_requested, fn(R<0>, R<1>) -> R<12>, 1, None, "OBL:C04.get.wrong_return_type_is_refused");
    get_function_case!(c04_u3_get_wrong_parameter, fn(R<0>, R<2>) -> R<2>, 1, None, "OBL:C04.get.wrong_parameter_type_is_refused");
    get_function_case!(c04_u3_get_swapped_parameters, fn(R<1>, R<0>) -> R<2>, 1, None, "OBL:C04.get.wrong_parameter_type_is_refused");
    get_function_case!(c04_u3_get_wrong_arity, fn(R<0>) -> R<2>, 1, None, "OBL:C04.get.wrong_arity_is_refused");
    get_function_case!(c04_u3_get_generated_helper, fn() -> R<12>, 2, None, "OBL:C04.get.compiler_generated_helper_is_refused");
    get_function_case!(c04_u3_get_unknown_name, fn() -> R<12>, 4, None, "OBL:C04.get.unknown_name_is_refused");
    get_function_case!(c04_u3_get_other_functions_signature, fn(R<0>, R<1>) -> R<2>, 3, None, "OBL:C04.get.signature_of_another_function_is_refused");
    get_function_case!(c04_u3_get_qualified_name, fn() -> R<12>, 0x103, None, "OBL:C04.get.unknown_name_is_refused");

    #[kani::proof]
    #[kani::unwind(10)]
    fn canary_c04_u3_get() {
        let (mut m, _ids, _rbr) = package();
        let res = m.get_function::<fn() -> R<12>>(Name(3));
        assert!(res.is_err(), "CANARY:C04.get.never_returns_a_handle");
        core::mem::forget(res);
    }
}
