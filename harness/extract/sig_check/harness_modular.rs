// Contract (C04), inductive step: check_roto_type verified AGAINST ITS OWN CONTRACT one nesting level
// down. The recursive calls of the real text are redirected (mechanical rewrite, see unit.toml) to a
// callee that answers as the contract says a correct check of the sub-types would - an arbitrary
// verdict per call - and records what it was asked. For every constructor, every pair of sub-types
// (ANY registered Rust types, not only leaves), every Roto name and argument count:
//   Ok  <=>  same constructor, same arity, and every sub-check Ok;
//   the sub-checks are (Rust argument i, Roto argument i) in order - no swap, no skip, none extra.
// Together with the leaf / host-type cases of C04-U1 this is "Ok iff the documented mapping assigns
// the Roto type to the Rust type" for type trees of ANY depth (induction on the Rust type).
#[cfg(kani)]
mod h_mod {
    use super::*;
    use crate::ast::Identifier;
    use crate::value::REGISTRY;

    const VERDICT: u32 = 17;
    const RESULT: u32 = 18;
    const OPTION: u32 = 19;
    const LIST: u32 = 20;
    const HOST: u32 = 21;

    fn named(ident: u32, args: &'static [Type]) -> Type {
        Type::Name(crate::typechecker::types::TypeName { name: ResolvedName { scope: ScopeRef::GLOBAL, ident: Identifier(ident) }, arguments: args })
    }
    fn any_ident() -> u32 {
        let k: u32 = kani::any();
        kani::assume(k <= 21);
        k
    }
    fn info() -> TypeInfo {
        TypeInfo { host: (ResolvedName { scope: ScopeRef::GLOBAL, ident: Identifier(HOST) }, TypeId(17)) }
    }
    fn any_sub() -> u8 {
        let k: u8 = kani::any();
        kani::assume(k < 24);
        k
    }
    /// 0..3 Roto arguments of arbitrary name (one concrete-length slice per path)
    fn any_args() -> (&'static [Type], usize) {
        let n: usize = kani::any();
        kani::assume(n <= 3);
        let s: &'static [Type] = match n {
            0 => &[],
            1 => Box::leak(Box::new([named(any_ident(), &[])])),
            2 => Box::leak(Box::new([named(any_ident(), &[]), named(any_ident(), &[])])),
            _ => Box::leak(Box::new([named(any_ident(), &[]), named(any_ident(), &[]), named(any_ident(), &[])])),
        };
        (s, n)
    }
    fn reset(ans: [bool; 2]) {
        unsafe {
            CALLEE_N = 0;
            CALLEE_LOG = [(0, 0); 2];
            CALLEE_ANSWER = ans;
        }
    }
    fn addr(t: &Type) -> usize {
        t as *const Type as usize
    }

    macro_rules! one_arg_step {
        ($name:ident, $is_list:expr) => {
    #[kani::proof]
    #[kani::unwind(10)]
    fn $name() {
        let is_list: bool = $is_list;
        let inner = any_sub();
        unsafe {
            REGISTRY[23] = Some(if is_list { TypeDescription::List(TypeId(inner)) } else { TypeDescription::Option(TypeId(inner)) });
        }
        let ans: [bool; 2] = [kani::any(), kani::any()];
        reset(ans);
        let mut ti = info();
        let x = any_ident();
        let (args, n) = any_args();
        let roto = named(x, args);
        let res = check_roto_type_step(&mut ti, TypeId(23), &roto);
        let shape = x == (if is_list { LIST } else { OPTION }) && n == 1;
        let calls = unsafe { CALLEE_N };
        assert!(res.is_ok() == (shape && ans[0]), "OBL:C04.check.step.one_argument_constructor_ok_iff_same_constructor_arity_and_sub_check");
        let asked_right = if shape { calls == 1 && unsafe { CALLEE_LOG[0] } == (inner, addr(&args[0])) } else { calls == 0 };
        assert!(asked_right, "OBL:C04.check.step.sub_check_is_rust_argument_against_roto_argument_once");
        kani::cover!(res.is_ok(), "COV:C04.check.step.one_arg_ok_reached");
        kani::cover!(shape && !ans[0], "COV:C04.check.step.one_arg_sub_mismatch_reached");
        core::mem::forget(res);
    }
        };
    }
    one_arg_step!(c04_u4_step_option, false);
    one_arg_step!(c04_u4_step_list, true);

    macro_rules! two_arg_step {
        ($name:ident, $is_verdict:expr) => {
    #[kani::proof]
    #[kani::unwind(10)]
    fn $name() {
        let is_verdict: bool = $is_verdict;
        let (a, b) = (any_sub(), any_sub());
        unsafe {
            REGISTRY[23] = Some(if is_verdict { TypeDescription::Verdict(TypeId(a), TypeId(b)) } else { TypeDescription::Result(TypeId(a), TypeId(b)) });
        }
        let ans: [bool; 2] = [kani::any(), kani::any()];
        reset(ans);
        let mut ti = info();
        let x = any_ident();
        let (args, n) = any_args();
        let roto = named(x, args);
        let res = check_roto_type_step(&mut ti, TypeId(23), &roto);
        let shape = x == (if is_verdict { VERDICT } else { RESULT }) && n == 2;
        let calls = unsafe { CALLEE_N };
        assert!(res.is_ok() == (shape && ans[0] && ans[1]), "OBL:C04.check.step.two_argument_constructor_ok_iff_same_constructor_arity_and_both_sub_checks");
        let asked_right = if !shape {
            calls == 0
        } else if !ans[0] {
            calls == 1 && unsafe { CALLEE_LOG[0] } == (a, addr(&args[0]))
        } else {
            calls == 2 && unsafe { CALLEE_LOG[0] } == (a, addr(&args[0])) && unsafe { CALLEE_LOG[1] } == (b, addr(&args[1]))
        };
        assert!(asked_right, "OBL:C04.check.step.sub_checks_pair_arguments_in_order_without_swap");
        kani::cover!(res.is_ok(), "COV:C04.check.step.two_arg_ok_reached");
        kani::cover!(shape && ans[0] && !ans[1], "COV:C04.check.step.second_sub_mismatch_reached");
        core::mem::forget(res);
    }
        };
    }
    two_arg_step!(c04_u4_step_result, false);
    two_arg_step!(c04_u4_step_verdict, true);

    #[kani::proof]
    #[kani::unwind(10)]
    fn canary_c04_u4_step() {
        unsafe {
            REGISTRY[23] = Some(TypeDescription::Option(TypeId(2)));
        }
        reset([true, true]);
        let mut ti = info();
        let a: &'static [Type; 1] = Box::leak(Box::new([named(2, &[])]));
        let roto = named(OPTION, &a[..]);
        let res = check_roto_type_step(&mut ti, TypeId(23), &roto);
        assert!(res.is_err(), "CANARY:C04.check.step.always_err");
        core::mem::forget(res);
    }
}
