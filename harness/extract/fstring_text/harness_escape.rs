// Contract (C06): "every location it cites lies inside the cited file on character boundaries": a
// fatal escape error in a string literal, a char literal or the text part of an f-string is reported
// at the bytes of the offending escape in the SOURCE FILE - start of the literal's content + position
// of the escape in the content - whichever caller decoded the text.
#[cfg(kani)]
mod h_esc {
    use super::*;

    /// f-string text part `text` whose content starts at file offset `at`; the first fatal escape
    /// occupies content bytes `esc`
    fn fstring_case(text: &str, at: usize, esc: Range<usize>) {
        let mut spans = Spans::default();
        let mut p = Parser { file: 0, spans: &mut spans };
        let mut parts = Vec::new();
        let r = p.text_part(text, at..at + text.len(), &mut parts);
        let ok = match &r {
            Err(e) => e.location.start == at + esc.start && e.location.end == at + esc.end,
            Ok(()) => false,
        };
        assert!(ok, "OBL:C06.escape.fstring_text_escape_error_is_located_at_the_escape");
        kani::cover!(true, "COV:C06.escape.fstring_case_reached");
        core::mem::forget(parts);
        core::mem::forget(r);
    }
    /// string literal token `tok` (with its quotes) starting at file offset `at`
    fn string_case(tok: &str, at: usize, esc: Range<usize>) {
        let mut spans = Spans::default();
        let mut p = Parser { file: 0, spans: &mut spans };
        let r = p.string_arm(tok, Span { file: 0, start: at, end: at + tok.len() });
        let ok = match &r {
            // esc is relative to the content, which starts one byte (the quote) after the token
            Err(e) => e.location.start == at + 1 + esc.start && e.location.end == at + 1 + esc.end,
            Ok(_) => false,
        };
        assert!(ok, "OBL:C06.escape.string_literal_escape_error_is_located_at_the_escape");
        kani::cover!(true, "COV:C06.escape.string_case_reached");
        core::mem::forget(r);
    }

    macro_rules! esc_case {
        ($($name:ident = $f:ident($t:expr, $at:expr, $r:expr)),*) => {$(
            #[kani::proof]
            #[kani::unwind(12)]
            fn $name() { $f($t, $at, $r); }
        )*};
    }
    esc_case!(
        c06_u6_fstring_escape_before_multibyte = fstring_case("a\\y\u{20ac}", 5, 1..3),
        c06_u6_fstring_escape_at_start = fstring_case("\\q", 2, 0..2),
        c06_u6_fstring_escape_after_multibyte = fstring_case("\u{e9}\\d", 7, 2..4),
        c06_u6_string_escape_before_multibyte = string_case("\"a\\y\u{20ac}\"", 5, 1..3),
        c06_u6_string_escape_at_start = string_case("\"\\q\"", 0, 0..2)
    );

    /// a well-formed literal decodes (no error is invented)
    #[kani::proof]
    #[kani::unwind(12)]
    fn c06_u6_wellformed_literals_decode() {
        let mut spans = Spans::default();
        let mut p = Parser { file: 0, spans: &mut spans };
        let r = p.string_arm("\"a\\n\"", Span { file: 0, start: 3, end: 8 });
        assert!(matches!(&r, Ok(Literal::String(s)) if s.as_str() == "a\n"), "OBL:C06.escape.wellformed_string_literal_decodes");
        let c = p.char_arm("'\\t'", Span { file: 0, start: 3, end: 7 });
        assert!(matches!(&c, Ok(Literal::Char('\t'))), "OBL:C06.escape.wellformed_char_literal_decodes");
        kani::cover!(true, "COV:C06.escape.wellformed_reached");
        core::mem::forget(r);
        core::mem::forget(c);
    }

    #[kani::proof]
    #[kani::unwind(12)]
    fn canary_c06_u6_escape() {
        let mut spans = Spans::default();
        let mut p = Parser { file: 0, spans: &mut spans };
        let mut parts = Vec::new();
        let r = p.text_part("\\q", 2..4, &mut parts);
        assert!(r.is_ok(), "CANARY:C06.escape.bad_escape_is_accepted");
        core::mem::forget(parts);
        core::mem::forget(r);
    }
}
