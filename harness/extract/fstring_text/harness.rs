// Contract (C09): "f-strings with {{ }} escapes and arbitrary Unicode text ... denote the documented
// value": in a literal part, `{{` stands for `{` and `}}` for `}`, everything else is kept.
mod h {
    use super::*;

    fn run(input: &str, want: &str) {
        let mut spans = Spans::default();
        let mut p = Parser { file: 0, spans: &mut spans };
        let mut parts = Vec::new();
        let r = p.text_part(input, 3..3 + input.len(), &mut parts);
        assert!(r.is_ok() && parts.len() == 1, "OBL:C09.fstring.text_part_yields_one_string_part");
        let FStringPart::String(got) = &parts[0].node;
        assert!(got.as_str() == want, "OBL:C09.fstring.double_braces_denote_single_braces_everything_else_is_kept");
        kani::cover!(true, "COV:C09.fstring.case_reached");
        core::mem::forget(parts);
    }

    macro_rules! case {
        ($name:ident, $in:expr, $want:expr) => {
            #[kani::proof]
            #[kani::unwind(14)]
            fn $name() {
                run($in, $want);
            }
        };
    }
    case!(c09_u6_fstring_plain, "abc", "abc");
    case!(c09_u6_fstring_open_only, "a {{ b", "a { b");
    case!(c09_u6_fstring_close_only, "a }} b", "a } b");
    case!(c09_u6_fstring_both, "{{x}}", "{x}");
    case!(c09_u6_fstring_close_first, "}} {{", "} {");
    case!(c09_u6_fstring_adjacent, "{{}}", "{}");
    case!(c09_u6_fstring_multibyte, "é}}", "é}");
}
