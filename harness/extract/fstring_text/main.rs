// K-ex unit `fstring_text` — assembled on every run by /verif/check.
#![allow(dead_code, unused_imports, unused_variables, unused_mut)]

pub mod parser {
    #[path = "/repo/src/parser/meta.rs"]
    pub mod meta;
    use meta::{Meta, Span, Spans};

    #[derive(Debug)]
    pub struct ParseError;
    pub type ParseResult<T> = Result<T, ParseError>;

    #[derive(Debug, PartialEq)]
    pub enum FStringPart {
        String(String),
    }

    /// shim: escape decoding is rustc_literal_escaper's job; the harness uses text without backslashes
    fn unescape_str(s: &str, _span: Span) -> ParseResult<String> {
        Ok(s.to_string())
    }

    pub struct Parser<'spans> {
        pub file: usize,
        pub spans: &'spans mut Spans,
    }

    impl Parser<'_> {
        /// the `if !s.is_empty() { .. }` block of Parser::f_string (verbatim), with the variables it uses as parameters
        fn text_part(&mut self, s: &str, span: core::ops::Range<usize>, parts: &mut Vec<Meta<FStringPart>>) -> ParseResult<()> {
            /*@TEXT_PART_BLOCK@*/
            Ok(())
        }
    }

    include!("harness.rs");
}

/// C06-U6: where an escape error inside a string / char literal or an f-string text part is reported
pub mod escape_unit {
    #[path = "/repo/src/parser/meta.rs"]
    pub mod meta;
    use meta::{Meta, Span, Spans};
    use rustc_literal_escaper::EscapeError;
    use std::ops::Range;

    /// stand-in for the dependency (assumed contract, see unit.toml)
    pub mod rustc_literal_escaper {
        use std::ops::Range;
        #[derive(Debug, Clone, Copy, PartialEq, Eq)]
        pub enum EscapeError {
            InvalidEscape,
            LoneSlash,
            ZeroChars,
            MoreThanOneChar,
        }
        impl EscapeError {
            pub fn is_fatal(&self) -> bool {
                true
            }
        }
        fn simple(c: u8) -> Option<char> {
            match c {
                b'n' => Some('\n'),
                b'r' => Some('\r'),
                b't' => Some('\t'),
                b'0' => Some('\0'),
                b'\\' => Some('\\'),
                b'\'' => Some('\''),
                b'"' => Some('"'),
                _ => None,
            }
        }
        fn char_len(b: u8) -> usize {
            if b < 0x80 { 1 } else if b < 0xE0 { 2 } else if b < 0xF0 { 3 } else { 4 }
        }
        pub fn unescape_str(s: &str, mut callback: impl FnMut(Range<usize>, Result<char, EscapeError>)) {
            let b = s.as_bytes();
            let mut i = 0;
            while i < b.len() {
                if b[i] == b'\\' {
                    if i + 1 >= b.len() {
                        callback(i..i + 1, Err(EscapeError::LoneSlash));
                        i += 1;
                    } else {
                        let n = char_len(b[i + 1]);
                        match simple(b[i + 1]) {
                            Some(c) => callback(i..i + 2, Ok(c)),
                            None => callback(i..i + 1 + n, Err(EscapeError::InvalidEscape)),
                        }
                        i += 1 + n;
                    }
                } else {
                    let n = char_len(b[i]);
                    let c = if n == 1 { b[i] as char } else { '\u{fffd}' };
                    callback(i..i + n, Ok(c));
                    i += n;
                }
            }
        }
        pub fn unescape_char(s: &str) -> Result<char, EscapeError> {
            let b = s.as_bytes();
            if b.is_empty() {
                return Err(EscapeError::ZeroChars);
            }
            if b[0] == b'\\' {
                if b.len() == 2 {
                    return simple(b[1]).ok_or(EscapeError::InvalidEscape);
                }
                return Err(EscapeError::InvalidEscape);
            }
            if char_len(b[0]) == b.len() {
                Ok(if b.len() == 1 { b[0] as char } else { '\u{fffd}' })
            } else {
                Err(EscapeError::MoreThanOneChar)
            }
        }
    }

    #[derive(Debug)]
    pub struct ParseError {
        pub location: Span,
    }
    impl ParseError {
        pub(super) fn escape(_escape_error: &EscapeError, span: Span) -> Self {
            ParseError { location: span }
        }
    }
    pub type ParseResult<T> = Result<T, Box<ParseError>>;

    #[derive(Debug, PartialEq)]
    pub enum FStringPart {
        String(String),
    }
    #[derive(Debug, PartialEq)]
    pub enum Literal {
        String(String),
        Char(char),
    }

    /*@FN_UNESCAPE_CHAR@*/

    /*@FN_UNESCAPE_STR@*/

    pub struct Parser<'spans> {
        pub file: usize,
        pub spans: &'spans mut Spans,
    }

    impl Parser<'_> {
        /// the `if !s.is_empty() { .. }` block of Parser::f_string (verbatim)
        fn text_part(&mut self, s: &str, span: Range<usize>, parts: &mut Vec<Meta<FStringPart>>) -> ParseResult<()> {
            /*@TEXT_PART_BLOCK@*/
            Ok(())
        }
        /// the arm `Token::String(s) => BODY` of Parser::simple_literal (verbatim body)
        fn string_arm(&mut self, s: &str, span: Span) -> ParseResult<Literal> {
            let literal = /*@ARM_LIT_STRING@*/;
            Ok(literal)
        }
        /// the arm `Token::Char(s) => BODY` of Parser::simple_literal (verbatim body)
        fn char_arm(&mut self, s: &str, span: Span) -> ParseResult<Literal> {
            let literal = /*@ARM_LIT_CHAR@*/;
            Ok(literal)
        }
    }

    include!("harness_escape.rs");
}

fn main() {}
