// K-ex unit `fstring_text` — assembled on every run by /verif/check.
#![allow(dead_code, unused_imports, unused_variables, unused_mut)]

pub mod parser {
    #[path = "/repo/src/parser/meta.rs"]
    pub mod meta;
    use meta::{Meta, Span, Spans};

    #[derive(Debug)]
    pub struct ParseError;
    pub type ParseResult<T> = Result<T, ParseError>;

    #[derive(Debug, PartialEq)]
    pub enum FStringPart {
        String(String),
    }

    /// shim: escape decoding is rustc_literal_escaper's job; the harness uses text without backslashes
    fn unescape_str(s: &str, _span: Span) -> ParseResult<String> {
        Ok(s.to_string())
    }

    pub struct Parser<'spans> {
        pub file: usize,
        pub spans: &'spans mut Spans,
    }

    impl Parser<'_> {
        /// the `if !s.is_empty() { .. }` block of Parser::f_string (verbatim), with the variables it uses as parameters
        fn text_part(&mut self, s: &str, span: core::ops::Range<usize>, parts: &mut Vec<Meta<FStringPart>>) -> ParseResult<()> {
            /*@TEXT_PART_BLOCK@*/
            Ok(())
        }
    }

    include!("harness.rs");
}

fn main() {}
