// Contract (C18-U3) on Rt::add: "registration ... fails exactly when" one of its passes fails, and
// "after success the item is usable at every path a use declaration names" - which needs the use
// declarations of a library to be resolved only after everything they can name or pass through
// (modules, types, functions/methods, constants of the same library) has been declared.
mod h_add {
    use super::*;

    #[kani::proof]
    #[kani::unwind(7)]
    fn c18_u3_add_pass_order_and_error_propagation() {
        let fail: [bool; 5] = kani::any();
        let mut rt = Rt { modules: false, types: false, functions: false, constants: false, imports: false, fail, calls: 0, precondition_violated: false };
        let res = rt.add(Lib { items: Items });
        assert!(!rt.precondition_violated, "OBL:C18.add.every_pass_runs_after_the_passes_that_declare_what_it_looks_up");
        let any_fail = fail[0] || fail[1] || fail[2] || fail[3] || fail[4];
        match res {
            Ok(()) => {
                assert!(!any_fail, "OBL:C18.add.fails_when_a_pass_fails");
                assert!(rt.modules && rt.types && rt.functions && rt.constants && rt.imports && rt.calls == 5, "OBL:C18.add.success_means_every_kind_of_item_was_declared_once");
            }
            Err(RegistrationError(k)) => {
                assert!(any_fail && fail[k as usize], "OBL:C18.add.succeeds_when_no_pass_fails");
                // the first failing pass stops the registration
                let mut first = 0;
                while !fail[first] {
                    first += 1;
                }
                assert!(k as usize == first && rt.calls as usize == first + 1, "OBL:C18.add.reports_the_first_failing_pass_and_stops");
            }
        }
        kani::cover!(!any_fail, "COV:C18.add.success_reached");
        kani::cover!(fail[4] && !fail[0] && !fail[1] && !fail[2] && !fail[3], "COV:C18.add.import_failure_reached");
    }

    #[kani::proof]
    fn canary_c18_u3_add() {
        let mut rt = Rt { modules: false, types: false, functions: false, constants: false, imports: false, fail: [false; 5], calls: 0, precondition_violated: false };
        let res = rt.add(Lib { items: Items });
        assert!(res.is_err(), "CANARY:C18.add.never_succeeds");
    }
}
