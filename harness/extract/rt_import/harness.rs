// Contract (C18): "adding a use declaration either succeeds or returns a registration error -
// never a panic; after success the item is usable at every path a use declaration names":
// the import `p1.p2...pk.last` declared in scope s must point at the member `last` of the scope
// reached by descending from s through p1, then p2 FROM THAT SCOPE, and so on.
mod h {
    use super::*;
    use crate::ast::Identifier;
    use crate::typechecker::NSC;

    fn name(k: usize) -> String {
        match k {
            0 => "a".to_string(),
            1 => "b".to_string(),
            _ => "c".to_string(),
        }
    }

    #[kani::proof]
    #[kani::unwind(6)]
    fn c18_u1_declare_import() {
        // every module tree over 4 scopes with members a,b,c (children have larger indices)
        let mut child = [[None; 3]; NSC];
        let mut s = 0;
        while s < NSC {
            let mut k = 0;
            while k < 3 {
                let present: bool = kani::any();
                let to: usize = kani::any();
                if present && s + 1 < NSC {
                    kani::assume(to > s && to < NSC);
                    child[s][k] = Some(to);
                }
                k += 1;
            }
            s += 1;
        }
        let tc = TypeChecker { child, declared: None, n_declared: 0, fail_declare: kani::any(), name_taken: false };
        let mut rt = Rt { type_checker: tc, types: Types { items: [None; 4], n: 0 } };
        // a path of 0..3 segments
        let len: usize = kani::any();
        kani::assume(len <= 3);
        let segs: [usize; 3] = [kani::any(), kani::any(), kani::any()];
        kani::assume(segs[0] < 3 && segs[1] < 3 && segs[2] < 3);
        let mut path = Vec::new();
        let mut i = 0;
        while i < len {
            path.push(name(segs[i]));
            i += 1;
        }
        let start: usize = kani::any();
        kani::assume(start < 2);
        let u = Use { imports: vec![path], location: Location };
        let res = rt.declare_import(ScopeRef(start), &u);
        // specification: descend through all but the last segment, each step from the scope reached so far
        let mut cur = Some(start);
        let mut j = 0;
        while j + 1 < len {
            cur = match cur {
                Some(c) => child[c][segs[j]],
                None => None,
            };
            j += 1;
        }
        if len == 0 {
            assert!(res.is_err(), "OBL:C18.import.empty_path_is_a_registration_error");
        } else {
            match cur {
                None => assert!(res.is_err() && rt.type_checker.n_declared == 0, "OBL:C18.import.unreachable_module_is_a_registration_error"),
                Some(target) => {
                    if rt.type_checker.fail_declare {
                        assert!(res.is_err(), "OBL:C18.import.duplicate_import_is_a_registration_error");
                    } else {
                        assert!(res.is_ok() && rt.type_checker.n_declared == 1, "OBL:C18.import.reachable_path_succeeds_once");
                        let want = (ScopeRef(start), ResolvedName { scope: ScopeRef(target), ident: Identifier('a' as u32 + segs[len - 1] as u32) });
                        assert!(rt.type_checker.declared == Some(want), "OBL:C18.import.names_the_member_of_the_scope_reached_by_walking_the_path");
                    }
                }
            }
        }
        kani::cover!(len == 3 && res.is_ok() && child[start][segs[0]] != Some(start), "COV:C18.import.three_segment_path_reached");
        kani::cover!(len == 0, "COV:C18.import.empty_path_reached");
    }

    #[kani::proof]
    #[kani::unwind(6)]
    fn canary_c18_u1_declare_import() {
        let mut child = [[None; 3]; NSC];
        child[0][0] = Some(1);
        let tc = TypeChecker { child, declared: None, n_declared: 0, fail_declare: false, name_taken: false };
        let mut rt = Rt { type_checker: tc, types: Types { items: [None; 4], n: 0 } };
        let u = Use { imports: vec![vec!["a".to_string(), "b".to_string()]], location: Location };
        let res = rt.declare_import(ScopeRef(0), &u);
        assert!(res.is_err(), "CANARY:C18.import.reachable_path_succeeds");
    }

    /// declare_type (C18): "fails exactly when ... a name is already taken in its scope, a Rust type
    /// is registered twice"; on success exactly one runtime type is added under (scope, ident).
    #[kani::proof]
    #[kani::unwind(6)]
    fn c18_u2_declare_type() {
        let tc = TypeChecker { child: [[None; 3]; NSC], declared: None, n_declared: 0, fail_declare: false, name_taken: kani::any() };
        let mut rt = Rt { type_checker: tc, types: Types { items: [None; 4], n: 0 } };
        // up to two types registered earlier, anywhere, under any name
        let n_old: usize = kani::any();
        kani::assume(n_old <= 2);
        let olds: [(u8, u32, usize); 2] = [(kani::any(), kani::any(), kani::any()), (kani::any(), kani::any(), kani::any())];
        let mut i = 0;
        while i < 2 {
            kani::assume(olds[i].0 < 3 && olds[i].1 < 3 && olds[i].2 < 3);
            if i < n_old {
                rt.types.push(RuntimeType {
                    name: ResolvedName { scope: ScopeRef(olds[i].2), ident: Identifier(olds[i].1) },
                    type_id: TypeId(olds[i].0),
                    movability: Unit,
                    eq_fn: Unit,
                    layout: Unit,
                    _docstring: Doc,
                });
            }
            i += 1;
        }
        let (tid, ident, scope): (u8, u32, usize) = (kani::any(), kani::any(), kani::any());
        kani::assume(tid < 3 && ident < 3 && scope < 3);
        let ty = Type { ident: Identifier(ident), rust_name: "", doc: Doc, type_id: TypeId(tid), layout: Unit, movability: Unit, eq_fn: Unit, location: Location };
        let res = rt.declare_type(ScopeRef(scope), &ty);
        let registered_twice = (n_old >= 1 && olds[0].0 == tid) || (n_old >= 2 && olds[1].0 == tid);
        assert!(res.is_err() == (registered_twice || rt.type_checker.name_taken), "OBL:C18.types.fails_exactly_when_rust_type_registered_twice_or_name_taken");
        if res.is_ok() {
            let last = rt.types.items[n_old];
            assert!(rt.types.n == n_old + 1 && matches!(last, Some(t) if t.type_id == TypeId(tid) && t.name == ResolvedName { scope: ScopeRef(scope), ident: Identifier(ident) }), "OBL:C18.types.success_adds_the_type_under_its_scope_and_name");
        } else {
            assert!(rt.types.n == n_old, "OBL:C18.types.failure_adds_nothing");
        }
        kani::cover!(registered_twice && n_old == 2 && olds[1].1 == ident && olds[1].2 != scope, "COV:C18.types.same_name_other_scope_same_rust_type_reached");
        kani::cover!(res.is_ok() && n_old == 2, "COV:C18.types.third_type_ok_reached");
    }
}
