// Contract (C18): "every item is usable from scripts at exactly the path and name under which it
// was declared ... fails exactly when ... an impl block mentions an unregistered type".
// Methods and associated constants of an impl block belong to the scope of the TYPE the block names
// (the scope the type was declared in + the type's name), not to the place the block is written.
#[cfg(kani)]
mod h_impl {
    use super::items::*;
    use super::*;

    const A: Identifier = Identifier('a' as u32);
    const C: Identifier = Identifier('c' as u32);

    /// module tree: root(0) { mod a (1) { type c = T (3) }, type c = T2 (2) }
    fn world() -> Rt {
        let mut child = [[None; 3]; crate::typechecker::NSC];
        child[0][0] = Some(1); // a
        child[0][2] = Some(2); // c at root: T2
        child[1][2] = Some(3); // c in module a: T
        let mut types = Types { items: [None; 4], n: 0 };
        let rt = |scope: usize, ident: Identifier, id: u8| RuntimeType {
            name: ResolvedName { scope: ScopeRef(scope), ident },
            type_id: TypeId(id),
            movability: crate::runtime::Unit,
            eq_fn: crate::runtime::Unit,
            layout: crate::runtime::Unit,
            _docstring: crate::runtime::Doc,
        };
        types.push(rt(1, C, 7)); // T, declared in module a
        types.push(rt(0, C, 8)); // T2, declared at the root, same Roto name
        Rt {
            type_checker: TypeChecker { child, declared: None, n_declared: 0, fail_declare: false, name_taken: false },
            types,
            log: [None; 6],
            n_log: 0,
        }
    }
    fn func(id: u8) -> Item {
        Item::Function(Function { id })
    }
    fn konst(id: u8) -> Item {
        Item::Constant(Constant { id, location: Location })
    }
    fn imp(ty: u8, children: Vec<Item>) -> Item {
        Item::Impl(Impl { ty: TypeId(ty), children, location: Location })
    }
    fn module(ident: Identifier, children: Vec<Item>) -> Item {
        Item::Module(Module { ident, doc: String::new(), children, location: Location })
    }

    /// impl block for T (declared in module a) written at the root; impl block for T2 (declared at
    /// the root) written inside module a; a plain function in module a
    #[kani::proof]
    #[kani::unwind(4)]
    fn c18_u4_methods_belong_to_the_named_type() {
        let mut rt = world();
        let items = vec![imp(7, vec![func(1)]), module(A, vec![imp(8, vec![func(2)]), func(3)])];
        let r = rt.declare_functions(ScopeRef(0), &items);
        assert!(r.is_ok(), "OBL:C18.impl.block_for_a_registered_type_is_accepted_wherever_it_is_written");
        // the module's items are declared by the recursive call (callee contract) in the module's scope
        let ok = rt.n_log == 2
            && rt.log[0] == Some(Declared::Function { scope: ScopeRef(3), id: 1, is_method: true })
            && rt.log[1] == Some(Declared::Nested { scope: ScopeRef(1), n: 2, first_id: 0 });
        // ... and inside module a (scope 1), the impl block for T2 goes to T2's scope
        let mut rt2 = world();
        let inner = vec![imp(8, vec![func(2)]), func(3)];
        let r2 = rt2.declare_functions(ScopeRef(1), &inner);
        let ok = ok && r2.is_ok() && rt2.n_log == 2
            && rt2.log[0] == Some(Declared::Function { scope: ScopeRef(2), id: 2, is_method: true })
            && rt2.log[1] == Some(Declared::Function { scope: ScopeRef(1), id: 3, is_method: false });
        core::mem::forget(inner);
        core::mem::forget(r2);
        assert!(ok, "OBL:C18.impl.methods_are_declared_in_the_scope_of_the_type_the_block_names");
        kani::cover!(true, "COV:C18.impl.methods_reached");
        core::mem::forget(items);
        core::mem::forget(r);
    }

    #[kani::proof]
    #[kani::unwind(4)]
    fn c18_u4_constants_belong_to_the_named_type() {
        let mut rt = world();
        let items = vec![imp(7, vec![konst(1)]), module(A, vec![imp(8, vec![konst(2)]), konst(3)])];
        let r = rt.declare_constants(ScopeRef(0), &items);
        assert!(r.is_ok(), "OBL:C18.impl.block_for_a_registered_type_is_accepted_wherever_it_is_written");
        let ok = rt.n_log == 2
            && rt.log[0] == Some(Declared::Nested { scope: ScopeRef(3), n: 1, first_id: 1 })
            && rt.log[1] == Some(Declared::Nested { scope: ScopeRef(1), n: 2, first_id: 0 });
        let mut rt2 = world();
        let inner = vec![imp(8, vec![konst(2)]), konst(3)];
        let r2 = rt2.declare_constants(ScopeRef(1), &inner);
        let ok = ok && r2.is_ok() && rt2.n_log == 2
            && rt2.log[0] == Some(Declared::Nested { scope: ScopeRef(2), n: 1, first_id: 2 })
            && rt2.log[1] == Some(Declared::Constant { scope: ScopeRef(1), id: 3 });
        core::mem::forget(inner);
        core::mem::forget(r2);
        core::mem::forget(items);
        core::mem::forget(r);
        assert!(ok, "OBL:C18.impl.constants_are_declared_in_the_scope_of_the_type_the_block_names");
        kani::cover!(true, "COV:C18.impl.constants_reached");
    }

    #[kani::proof]
    #[kani::unwind(4)]
    fn c18_u4_impl_for_unregistered_type_is_an_error() {
        let mut rt = world();
        let items = vec![imp(9, vec![func(1)])];
        let r = rt.declare_functions(ScopeRef(0), &items);
        assert!(r.is_err() && rt.n_log == 0, "OBL:C18.impl.block_for_an_unregistered_type_is_a_registration_error");
        kani::cover!(true, "COV:C18.impl.unregistered_reached");
        core::mem::forget(items);
        core::mem::forget(r);
    }

    /// nesting rules inside an impl block
    #[kani::proof]
    #[kani::unwind(4)]
    fn c18_u4_nothing_but_functions_and_constants_nests_in_an_impl() {
        let which: u8 = kani::any();
        kani::assume(which < 3);
        let inner = match which {
            0 => imp(8, vec![]),
            1 => Item::Type(Type { id: 1, location: Location }),
            _ => module(A, vec![]),
        };
        let mut rt = world();
        let items = vec![imp(7, vec![inner])];
        let r = rt.declare_functions(ScopeRef(0), &items);
        assert!(r.is_err(), "OBL:C18.impl.impl_type_or_module_nested_in_an_impl_is_a_registration_error");
        kani::cover!(which == 2, "COV:C18.impl.nested_module_reached");
        core::mem::forget(items);
        core::mem::forget(r);
    }

    #[kani::proof]
    #[kani::unwind(4)]
    fn canary_c18_u4_impl() {
        let mut rt = world();
        let items = vec![imp(7, vec![func(1)])];
        let r = rt.declare_functions(ScopeRef(0), &items);
        assert!(r.is_err(), "CANARY:C18.impl.always_error");
        core::mem::forget(items);
        core::mem::forget(r);
    }
}
