// K-ex unit `rt_import` — assembled on every run by /verif/check.
#![allow(dead_code, unused_imports, unused_variables, unused_mut, unused_macros)]

// error text is not part of the property
macro_rules! format {
    ($($t:tt)*) => {
        String::new()
    };
}

pub mod ast {
    #[derive(Clone, Copy, Debug, PartialEq, Eq, PartialOrd, Ord, Hash)]
    pub struct Identifier(pub u32);
    impl From<&String> for Identifier {
        /// injective on the one-letter names the harness uses
        fn from(s: &String) -> Self {
            let b = s.as_bytes();
            Identifier(if b.len() == 1 { b[0] as u32 } else { 0 })
        }
    }
}

pub mod typechecker {
    pub mod scope {
        use crate::ast::Identifier;
        #[derive(Clone, Copy, Debug, PartialEq, Eq, PartialOrd, Ord, Hash)]
        pub struct ScopeRef(pub usize);
        #[derive(Clone, Copy, Debug, PartialEq, Eq, PartialOrd, Ord, Hash)]
        pub struct ResolvedName {
            pub scope: ScopeRef,
            pub ident: Identifier,
        }
    }
    use crate::ast::Identifier;
    use scope::{ResolvedName, ScopeRef};

    pub const NSC: usize = 4;
    /// shim: a module tree; child[s][k] = scope of the member named ('a' + k) of scope s
    pub struct TypeChecker {
        pub child: [[Option<usize>; 3]; NSC],
        pub declared: Option<(ScopeRef, ResolvedName)>,
        pub n_declared: usize,
        pub fail_declare: bool,
        pub name_taken: bool,
    }
    impl TypeChecker {
        pub(crate) fn get_scope_of(&self, scope: ScopeRef, ident: Identifier) -> Option<ScopeRef> {
            let k = ident.0.wrapping_sub('a' as u32) as usize;
            if k < 3 && scope.0 < NSC { self.child[scope.0][k].map(ScopeRef) } else { None }
        }
        pub(crate) fn declare_runtime_type(&mut self, scope: ScopeRef, ident: Identifier, type_id: crate::TypeId, doc: crate::runtime::Doc) -> Result<(), String> {
            // name already taken in that scope (the scope graph's duplicate check, C13-U1 / C18-U2)
            if self.name_taken { Err(String::new()) } else { Ok(()) }
        }
        pub(crate) fn declare_runtime_import(&mut self, scope: ScopeRef, name: ResolvedName) -> Result<(), String> {
            if self.fail_declare {
                return Err(String::new());
            }
            self.declared = Some((scope, name));
            self.n_declared += 1;
            Ok(())
        }
    }
}

/// stand-in for std::any::TypeId
#[derive(Clone, Copy, Debug, PartialEq, Eq)]
pub struct TypeId(pub u8);

pub mod runtime {
    use crate::typechecker::scope::{ResolvedName, ScopeRef};
    use crate::typechecker::TypeChecker;
    use crate::TypeId;

    #[derive(Clone, Copy, Debug, PartialEq, Eq)]
    pub struct Doc;
    #[derive(Clone, Copy, Debug, PartialEq, Eq)]
    pub struct Unit;
    /// shim of RuntimeType: same field names
    #[derive(Clone, Copy, Debug, PartialEq, Eq)]
    pub struct RuntimeType {
        pub name: ResolvedName,
        pub type_id: TypeId,
        pub movability: Unit,
        pub eq_fn: Unit,
        pub layout: Unit,
        pub _docstring: Doc,
    }
    /// shim of items::Type: same field names
    pub struct Type {
        pub ident: crate::ast::Identifier,
        pub rust_name: &'static str,
        pub doc: Doc,
        pub type_id: TypeId,
        pub layout: Unit,
        pub movability: Unit,
        pub eq_fn: Unit,
        pub location: Location,
    }
    /// inline array-backed stand-in for Vec<RuntimeType>
    pub struct Types {
        pub items: [Option<RuntimeType>; 4],
        pub n: usize,
    }
    pub struct TypesIter<'a> {
        t: &'a Types,
        i: usize,
    }
    impl<'a> Iterator for TypesIter<'a> {
        type Item = &'a RuntimeType;
        fn next(&mut self) -> Option<&'a RuntimeType> {
            if self.i < self.t.n {
                let r = self.t.items[self.i].as_ref();
                self.i += 1;
                r
            } else {
                None
            }
        }
    }
    impl Types {
        pub fn iter(&self) -> TypesIter<'_> {
            TypesIter { t: self, i: 0 }
        }
        pub fn push(&mut self, t: RuntimeType) {
            assert!(self.n < 4, "shim: types full");
            self.items[self.n] = Some(t);
            self.n += 1;
        }
    }

    #[derive(Clone, Debug)]
    pub struct Location;
    #[derive(Debug)]
    pub struct RegistrationError {
        pub message: String,
        pub location: Location,
    }
    pub mod items {
        use super::Location;
        /*@STRUCT_USE@*/
    }
    use items::Use;

    pub struct Rt {
        pub type_checker: TypeChecker,
        pub types: Types,
    }
    impl Rt {
        /*@FN_DECLARE_IMPORT@*/

        /*@FN_DECLARE_TYPE@*/
    }

    include!("harness.rs");
}

fn main() {}
