// K-ex unit `rt_import` — assembled on every run by /verif/check.
#![allow(dead_code, unused_imports, unused_variables, unused_mut, unused_macros)]

// error text is not part of the property
macro_rules! format {
    ($($t:tt)*) => {
        String::new()
    };
}

pub mod ast {
    #[derive(Clone, Copy, Debug, PartialEq, Eq, PartialOrd, Ord, Hash)]
    pub struct Identifier(pub u32);
    impl From<&String> for Identifier {
        /// injective on the one-letter names the harness uses
        fn from(s: &String) -> Self {
            let b = s.as_bytes();
            Identifier(if b.len() == 1 { b[0] as u32 } else { 0 })
        }
    }
}

pub mod typechecker {
    pub mod scope {
        use crate::ast::Identifier;
        #[derive(Clone, Copy, Debug, PartialEq, Eq, PartialOrd, Ord, Hash)]
        pub struct ScopeRef(pub usize);
        #[derive(Clone, Copy, Debug, PartialEq, Eq, PartialOrd, Ord, Hash)]
        pub struct ResolvedName {
            pub scope: ScopeRef,
            pub ident: Identifier,
        }
    }
    use crate::ast::Identifier;
    use scope::{ResolvedName, ScopeRef};

    pub const NSC: usize = 4;
    /// shim: a module tree; child[s][k] = scope of the member named ('a' + k) of scope s
    pub struct TypeChecker {
        pub child: [[Option<usize>; 3]; NSC],
        pub declared: Option<(ScopeRef, ResolvedName)>,
        pub n_declared: usize,
        pub fail_declare: bool,
    }
    impl TypeChecker {
        pub(crate) fn get_scope_of(&self, scope: ScopeRef, ident: Identifier) -> Option<ScopeRef> {
            let k = ident.0.wrapping_sub('a' as u32) as usize;
            if k < 3 && scope.0 < NSC { self.child[scope.0][k].map(ScopeRef) } else { None }
        }
        pub(crate) fn declare_runtime_import(&mut self, scope: ScopeRef, name: ResolvedName) -> Result<(), String> {
            if self.fail_declare {
                return Err(String::new());
            }
            self.declared = Some((scope, name));
            self.n_declared += 1;
            Ok(())
        }
    }
}

pub mod runtime {
    use crate::typechecker::scope::{ResolvedName, ScopeRef};
    use crate::typechecker::TypeChecker;

    #[derive(Clone, Debug)]
    pub struct Location;
    #[derive(Debug)]
    pub struct RegistrationError {
        pub message: String,
        pub location: Location,
    }
    pub mod items {
        use super::Location;
        /*@STRUCT_USE@*/
    }
    use items::Use;

    pub struct Rt {
        pub type_checker: TypeChecker,
    }
    impl Rt {
        /*@FN_DECLARE_IMPORT@*/
    }

    include!("harness.rs");
}

fn main() {}
