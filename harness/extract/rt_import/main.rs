// K-ex unit `rt_import` — assembled on every run by /verif/check.
#![allow(dead_code, unused_imports, unused_variables, unused_mut, unused_macros)]

// error text is not part of the property
macro_rules! format {
    ($($t:tt)*) => {
        String::new()
    };
}

pub mod ast {
    #[derive(Clone, Copy, Debug, PartialEq, Eq, PartialOrd, Ord, Hash)]
    pub struct Identifier(pub u32);
    impl From<&String> for Identifier {
        /// injective on the one-letter names the harness uses
        fn from(s: &String) -> Self {
            let b = s.as_bytes();
            Identifier(if b.len() == 1 { b[0] as u32 } else { 0 })
        }
    }
}

pub mod typechecker {
    pub mod scope {
        use crate::ast::Identifier;
        #[derive(Clone, Copy, Debug, PartialEq, Eq, PartialOrd, Ord, Hash)]
        pub struct ScopeRef(pub usize);
        impl ScopeRef {
            pub const GLOBAL: Self = Self(0);
        }
        #[derive(Clone, Copy, Debug, PartialEq, Eq, PartialOrd, Ord, Hash)]
        pub struct ResolvedName {
            pub scope: ScopeRef,
            pub ident: Identifier,
        }
    }
    use crate::ast::Identifier;
    use scope::{ResolvedName, ScopeRef};

    pub const NSC: usize = 4;
    /// shim: a module tree; child[s][k] = scope of the member named ('a' + k) of scope s
    pub struct TypeChecker {
        pub child: [[Option<usize>; 3]; NSC],
        pub declared: Option<(ScopeRef, ResolvedName)>,
        pub n_declared: usize,
        pub fail_declare: bool,
        pub name_taken: bool,
    }
    impl TypeChecker {
        pub(crate) fn get_scope_of(&self, scope: ScopeRef, ident: Identifier) -> Option<ScopeRef> {
            let k = ident.0.wrapping_sub('a' as u32) as usize;
            if k < 3 && scope.0 < NSC { self.child[scope.0][k].map(ScopeRef) } else { None }
        }
        pub(crate) fn declare_runtime_type(&mut self, scope: ScopeRef, ident: Identifier, type_id: crate::TypeId, doc: crate::runtime::Doc) -> Result<(), String> {
            // name already taken in that scope (the scope graph's duplicate check, C13-U1 / C18-U2)
            if self.name_taken { Err(String::new()) } else { Ok(()) }
        }
        pub(crate) fn declare_runtime_import(&mut self, scope: ScopeRef, name: ResolvedName) -> Result<(), String> {
            if self.fail_declare {
                return Err(String::new());
            }
            self.declared = Some((scope, name));
            self.n_declared += 1;
            Ok(())
        }
    }
}

/// stand-in for std::any::TypeId
#[derive(Clone, Copy, Debug, PartialEq, Eq)]
pub struct TypeId(pub u8);

pub mod runtime {
    use crate::typechecker::scope::{ResolvedName, ScopeRef};
    use crate::typechecker::TypeChecker;
    use crate::TypeId;

    #[derive(Clone, Copy, Debug, PartialEq, Eq)]
    pub struct Doc;
    #[derive(Clone, Copy, Debug, PartialEq, Eq)]
    pub struct Unit;
    /// shim of RuntimeType: same field names
    #[derive(Clone, Copy, Debug, PartialEq, Eq)]
    pub struct RuntimeType {
        pub name: ResolvedName,
        pub type_id: TypeId,
        pub movability: Unit,
        pub eq_fn: Unit,
        pub layout: Unit,
        pub _docstring: Doc,
    }
    /// shim of items::Type: same field names
    pub struct Type {
        pub ident: crate::ast::Identifier,
        pub rust_name: &'static str,
        pub doc: Doc,
        pub type_id: TypeId,
        pub layout: Unit,
        pub movability: Unit,
        pub eq_fn: Unit,
        pub location: Location,
    }
    /// inline array-backed stand-in for Vec<RuntimeType>
    pub struct Types {
        pub items: [Option<RuntimeType>; 4],
        pub n: usize,
    }
    pub struct TypesIter<'a> {
        t: &'a Types,
        i: usize,
    }
    impl<'a> Iterator for TypesIter<'a> {
        type Item = &'a RuntimeType;
        fn next(&mut self) -> Option<&'a RuntimeType> {
            if self.i < self.t.n {
                let r = self.t.items[self.i].as_ref();
                self.i += 1;
                r
            } else {
                None
            }
        }
    }
    impl Types {
        pub fn iter(&self) -> TypesIter<'_> {
            TypesIter { t: self, i: 0 }
        }
        pub fn push(&mut self, t: RuntimeType) {
            assert!(self.n < 4, "shim: types full");
            self.items[self.n] = Some(t);
            self.n += 1;
        }
    }

    #[derive(Clone, Debug)]
    pub struct Location;
    #[derive(Debug)]
    pub struct RegistrationError {
        pub message: String,
        pub location: Location,
    }
    pub mod items {
        use super::Location;
        /*@STRUCT_USE@*/
    }
    use items::Use;

    pub struct Rt {
        pub type_checker: TypeChecker,
        pub types: Types,
    }
    impl Rt {
        /*@FN_DECLARE_IMPORT@*/

        /*@FN_DECLARE_TYPE@*/
    }

    include!("harness.rs");
}


/// C18-U3: the body of `Rt::add` against callees that only keep ghost state (which kinds of item
/// have been declared so far) and check their preconditions at the call site.
pub mod add_unit {
    use crate::typechecker::scope::ScopeRef;
    pub struct RegistrationError(pub u8);
    pub struct Items;
    pub struct Lib {
        pub items: Items,
    }
    pub trait Registerable {
        fn into_lib(self) -> Lib;
    }
    impl Registerable for Lib {
        fn into_lib(self) -> Lib {
            self
        }
    }
    /// ghost state + the (symbolic) outcome of every pass
    pub struct Rt {
        pub modules: bool,
        pub types: bool,
        pub functions: bool,
        pub constants: bool,
        pub imports: bool,
        pub fail: [bool; 5],
        pub calls: u8,
        pub precondition_violated: bool,
    }
    impl Rt {
        fn pass(&mut self, k: usize, pre: bool) -> Result<(), RegistrationError> {
            if !pre {
                self.precondition_violated = true;
            }
            self.calls += 1;
            if self.fail[k] { Err(RegistrationError(k as u8)) } else { Ok(()) }
        }
        /// modules can always be declared
        pub fn declare_modules(&mut self, _parent: Option<ScopeRef>, _items: &Items) -> Result<(), RegistrationError> {
            let r = self.pass(0, true);
            self.modules = true;
            r
        }
        /// requires: the modules the types live in exist
        pub fn declare_types(&mut self, _scope: ScopeRef, _items: &Items) -> Result<(), RegistrationError> {
            let r = self.pass(1, self.modules);
            self.types = true;
            r
        }
        /// requires: modules exist; methods and signatures name registered types
        pub fn declare_functions(&mut self, _scope: ScopeRef, _items: &Items) -> Result<(), RegistrationError> {
            let r = self.pass(2, self.modules && self.types);
            self.functions = true;
            r
        }
        /// requires: modules exist; a constant has a registered type
        pub fn declare_constants(&mut self, _scope: ScopeRef, _items: &Items) -> Result<(), RegistrationError> {
            let r = self.pass(3, self.modules && self.types);
            self.constants = true;
            r
        }
        /// requires: everything a use path can go through (modules, types) or name (types,
        /// functions, methods, constants) is declared: declare_import looks each segment up
        pub fn declare_imports(&mut self, _scope: ScopeRef, _items: &Items) -> Result<(), RegistrationError> {
            let r = self.pass(4, self.modules && self.types && self.functions && self.constants);
            self.imports = true;
            r
        }

        /*@FN_ADD@*/
    }
    include!("harness_add.rs");
}

/// C18-U4: impl blocks attach their methods / constants to the type they name, wherever the block is
/// written; modules nest; an impl block for an unregistered type is a registration error.
pub mod impl_unit {
    use crate::ast::Identifier;
    use crate::runtime::{Location, RegistrationError, RuntimeType, Types};
    use crate::typechecker::scope::{ResolvedName, ScopeRef};
    use crate::typechecker::TypeChecker;
    use crate::TypeId;

    pub mod items {
        pub use crate::runtime::Location;
        use crate::ast::Identifier;
        use crate::TypeId;
        #[derive(Clone, Debug)]
        pub struct Function {
            pub id: u8,
        }
        #[derive(Clone, Debug)]
        pub struct Type {
            pub id: u8,
            pub location: Location,
        }
        #[derive(Clone, Debug)]
        pub struct Constant {
            pub id: u8,
            pub location: Location,
        }
        #[derive(Clone, Debug)]
        pub struct Use {
            pub location: Location,
        }
        /*@ENUM_ITEM@*/

        /*@STRUCT_MODULE@*/

        /*@STRUCT_IMPL@*/
    }
    use items::{Constant, Function, Impl, Item, Module};

    #[derive(Clone, Copy, Debug, PartialEq, Eq)]
    pub enum Declared {
        Function { scope: ScopeRef, id: u8, is_method: bool },
        Constant { scope: ScopeRef, id: u8 },
        /// the recursive call: declare the items of `children` (identified by their number and the id
        /// of the first function / constant among them) in `scope`
        Nested { scope: ScopeRef, n: usize, first_id: u8 },
    }
    pub struct Rt {
        pub type_checker: TypeChecker,
        pub types: Types,
        pub log: [Option<Declared>; 6],
        pub n_log: usize,
    }
    impl Rt {
        fn record(&mut self, d: Declared) {
            assert!(self.n_log < 6, "shim: log full");
            self.log[self.n_log] = Some(d);
            self.n_log += 1;
        }
        fn declare_function(&mut self, scope: ScopeRef, f: &Function, is_method: bool) -> Result<(), RegistrationError> {
            self.record(Declared::Function { scope, id: f.id, is_method });
            Ok(())
        }
        fn first_id(items: &[Item]) -> u8 {
            match items.first() {
                Some(Item::Function(f)) => f.id,
                Some(Item::Constant(c)) => c.id,
                _ => 0,
            }
        }
        /// callee contract of the recursive calls: Ok, having declared `children` in `scope`
        fn declare_functions_callee(&mut self, scope: ScopeRef, children: &[Item]) -> Result<(), RegistrationError> {
            self.record(Declared::Nested { scope, n: children.len(), first_id: Self::first_id(children) });
            Ok(())
        }
        fn declare_constants_callee(&mut self, scope: ScopeRef, children: &[Item]) -> Result<(), RegistrationError> {
            self.record(Declared::Nested { scope, n: children.len(), first_id: Self::first_id(children) });
            Ok(())
        }
        fn declare_constant(&mut self, scope: ScopeRef, c: &Constant) -> Result<(), RegistrationError> {
            self.record(Declared::Constant { scope, id: c.id });
            Ok(())
        }

        /*@FN_DECLARE_FUNCTIONS@*/

        /*@FN_DECLARE_METHODS@*/

        /*@FN_DECLARE_CONSTANTS@*/

        /*@IMPL_RT_HELPERS@*/

        /*@FN_GET_RUNTIME_TYPE@*/
    }

    include!("harness_impl.rs");
}

fn main() {}
