// Contracts (C05): "a value of any type allowed at the boundary arrives structurally equal to
// what was sent ... when it is read from a registered constant"; "constructing or matching
// Option/Result/Verdict inside the script agrees with Rust's view of the same value".
mod h {
    use super::*;
    use crate::value::{RotoOption, RotoResult, Value, Verdict};

    fn tag<T>(v: &T) -> u8 {
        unsafe { *(v as *const T as *const u8) }
    }

    /// transform maps Some/Ok/Accept to the variant with discriminant 0 and None/Err/Reject to 1,
    /// payload unchanged; untransform is its inverse (depth 1)
    #[kani::proof]
    fn c05_u4_transform_roundtrip_flat() {
        let o: Option<u32> = kani::any();
        let t = o.transform();
        assert!(match (o, t) { (Some(a), RotoOption::Some(b)) => a == b, (None, RotoOption::None) => true, _ => false }, "OBL:C05.transform.option_maps_variantwise");
        assert!(tag(&t) == if o.is_some() { 0 } else { 1 }, "OBL:C05.transform.option_tag_is_what_roto_reads");
        assert!(<Option<u32> as Value>::untransform(t) == o, "OBL:C05.transform.option_roundtrip");
        let r: Result<u8, i64> = kani::any();
        let tr = r.transform();
        assert!(match (r, tr) { (Ok(a), RotoResult::Ok(b)) => a == b, (Err(a), RotoResult::Err(b)) => a == b, _ => false }, "OBL:C05.transform.result_maps_variantwise_arguments_in_order");
        assert!(<Result<u8, i64> as Value>::untransform(tr) == r, "OBL:C05.transform.result_roundtrip");
        let acc: bool = kani::any();
        let v: Verdict<u16, ()> = if acc { Verdict::Accept(kani::any()) } else { Verdict::Reject(()) };
        let tv = v.clone().transform();
        assert!(tv == v && tag(&tv) == if acc { 0 } else { 1 }, "OBL:C05.transform.verdict_maps_variantwise");
        assert!(<Verdict<u16, ()> as Value>::untransform(tv) == v, "OBL:C05.transform.verdict_roundtrip");
        kani::cover!(o.is_none() && r.is_err() && !acc, "COV:C05.transform.second_variants_reached");
    }

    /// nesting (depth 2): Result<Option<u8>, Verdict<u16, u8>>
    #[kani::proof]
    fn c05_u4_transform_roundtrip_nested() {
        type T = Result<Option<u8>, Verdict<u16, u8>>;
        let which: u8 = kani::any();
        kani::assume(which < 4);
        let x: T = match which {
            0 => Ok(Some(kani::any())),
            1 => Ok(None),
            2 => Err(Verdict::Accept(kani::any())),
            _ => Err(Verdict::Reject(kani::any())),
        };
        let t = x.clone().transform();
        let shape_ok = match (&x, &t) {
            (Ok(Some(a)), RotoResult::Ok(RotoOption::Some(b))) => a == b,
            (Ok(None), RotoResult::Ok(RotoOption::None)) => true,
            (Err(Verdict::Accept(a)), RotoResult::Err(Verdict::Accept(b))) => a == b,
            (Err(Verdict::Reject(a)), RotoResult::Err(Verdict::Reject(b))) => a == b,
            _ => false,
        };
        assert!(shape_ok, "OBL:C05.transform.nested_maps_variantwise");
        assert!(<T as Value>::untransform(t) == x, "OBL:C05.transform.nested_roundtrip");
        kani::cover!(which == 3, "COV:C05.transform.nested_reject_reached");
    }

    /// a registered constant is stored in the representation the script reads (T::Transformed)
    #[kani::proof]
    fn c05_u6_constant_is_stored_transformed() {
        let o: Option<u32> = kani::any();
        let c = Constant::new("LIMIT", "", o, Location).unwrap();
        // the script reads the constant through this pointer as a RotoOption<u32>
        let p = c.value.ptr() as *const RotoOption<u32>;
        let seen = unsafe { *p };
        assert!(match (o, seen) { (Some(a), RotoOption::Some(b)) => a == b, (None, RotoOption::None) => true, _ => false }, "OBL:C05.constant.option_constant_read_back_equal");
        assert!(c.type_id == std::any::TypeId::of::<Option<u32>>(), "OBL:C05.constant.registered_under_its_rust_type");
        let r: Result<u8, u16> = kani::any();
        let c2 = Constant::new("R", "", r, Location).unwrap();
        let seen2 = unsafe { *(c2.value.ptr() as *const RotoResult<u8, u16>) };
        assert!(match (r, seen2) { (Ok(a), RotoResult::Ok(b)) => a == b, (Err(a), RotoResult::Err(b)) => a == b, _ => false }, "OBL:C05.constant.result_constant_read_back_equal");
        kani::cover!(o.is_none() && r.is_err(), "COV:C05.constant.none_and_err_reached");
    }

    #[kani::proof]
    fn canary_c05_u4_transform() {
        let o: Option<u32> = kani::any();
        let t = o.transform();
        assert!(tag(&t) == 0, "CANARY:C05.transform.tag_always_zero");
    }
}
