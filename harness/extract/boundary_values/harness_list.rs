// Contract (C05 "a List passed as argument / returned equals what was sent"): a list created on the
// Rust side stores elements of type T::Transformed - the representation the script reads - so its
// element size, alignment and clone / drop / eq functions must be those of T::Transformed, for every
// boundary type T (the Rust type T itself may be smaller, e.g. Option<bool>).
#[cfg(kani)]
mod h {
    use super::*;
    use crate::value::Value;

    fn contract<T: Value>()
    where
        T::Transformed: PartialEq,
    {
        let l = List::<T>::new();
        let vt = &l.inner.vtable;
        let want = Layout::new::<T::Transformed>();
        assert!(vt.size() == want.size() && vt.align() == want.align(), "OBL:C05.list.rust_built_list_has_the_element_layout_of_the_script_representation");
        let clone_ok = match vt.clone_fn {
            Some(f) => f as usize == extern_clone::<T::Transformed> as CloneFn as usize,
            None => false,
        };
        let drop_ok = match vt.drop_fn {
            Some(f) => std::mem::needs_drop::<T::Transformed>() && f as usize == extern_drop::<T::Transformed> as DropFn as usize,
            None => !std::mem::needs_drop::<T::Transformed>(),
        };
        let eq_ok = vt.eq_fn as usize == extern_eq::<T::Transformed> as EqFn as usize;
        assert!(clone_ok && drop_ok && eq_ok, "OBL:C05.list.rust_built_list_clones_drops_compares_the_script_representation");
        kani::cover!(true, "COV:C05.list.reached");
    }

    macro_rules! list_new {
        ($($name:ident = $t:ty),*) => {$(
            #[kani::proof]
            fn $name() { contract::<$t>(); }
        )*};
    }
    list_new!(c05_u7_list_new_u8 = u8, c05_u7_list_new_i64 = i64, c05_u7_list_new_bool = bool,
        c05_u7_list_new_option_bool = Option<bool>, c05_u7_list_new_option_u32 = Option<u32>,
        c05_u7_list_new_option_option_u8 = Option<Option<u8>>, c05_u7_list_new_result_unit_bool = Result<(), bool>,
        c05_u7_list_new_result_u8_i64 = Result<u8, i64>, c05_u7_list_new_option_result = Option<Result<u16, u8>>);

    #[kani::proof]
    fn canary_c05_u7_list_new() {
        let l = List::<Option<bool>>::new();
        assert!(l.inner.vtable.size() == std::mem::size_of::<Option<bool>>(), "CANARY:C05.list.element_size_is_the_rust_size");
    }
}
