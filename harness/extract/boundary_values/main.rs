// K-ex unit `boundary_values` — assembled on every run by /verif/check.
// Text that replaced a fragment marker is verbatim source of /repo.
#![allow(dead_code, unused_imports, unused_variables, unused_mut)]

pub mod ast {
    #[derive(Clone, Copy, Debug, PartialEq, Eq)]
    pub struct Identifier(pub u32);
    impl From<&str> for Identifier {
        fn from(_s: &str) -> Self {
            Identifier(1)
        }
    }
}

pub mod value {
    use std::any::TypeId;

    #[path = "/repo/src/value/option.rs"]
    pub mod option;
    #[path = "/repo/src/value/result.rs"]
    pub mod result;
    #[path = "/repo/src/value/verdict.rs"]
    pub mod verdict;
    pub use option::RotoOption;
    pub use result::RotoResult;
    pub use verdict::Verdict;

    /*@ENUM_TYPEDESCRIPTION@*/

    #[derive(Clone)]
    pub struct Ty {
        pub type_id: TypeId,
        pub description: TypeDescription,
    }
    pub struct TypeRegistry;
    impl TypeRegistry {
        pub fn store<T: 'static>(description: TypeDescription) -> Ty {
            Ty { type_id: TypeId::of::<T>(), description }
        }
    }

    /// the part of `Value` the extracted impls define
    pub trait Value: Sized + 'static {
        type Transformed: Clone;
        type AsParam;
        fn transform(self) -> Self::Transformed;
        fn untransform(transformed: Self::Transformed) -> Self;
        fn resolve() -> Ty;
    }
    macro_rules! leaf {
        ($($t:ty),*) => {$(
            impl Value for $t {
                type Transformed = $t;
                type AsParam = $t;
                fn transform(self) -> $t { self }
                fn untransform(t: $t) -> $t { t }
                fn resolve() -> Ty { TypeRegistry::store::<$t>(TypeDescription::Leaf) }
            }
        )*};
    }
    leaf!(u8, u16, u32, i64, bool, ());

    /*@IMPL_VALUE_VERDICT@*/

    /*@IMPL_VALUE_RESULT@*/

    /*@IMPL_VALUE_OPTION@*/
}

pub mod runtime {
    use std::sync::Arc;

    #[derive(Clone, Debug)]
    pub struct Location;
    #[derive(Debug)]
    pub struct RegistrationError;
    pub struct Rt;
    impl Rt {
        pub fn check_name(_location: &Location, _name: crate::ast::Identifier) -> Result<(), RegistrationError> {
            Ok(())
        }
    }

    /*@STRUCT_CONSTANTVALUE@*/

    /*@IMPL_CONSTANTVALUE@*/

    pub mod items {
        use super::{ConstantValue, Location, RegistrationError, Rt};
        use crate::ast::Identifier;
        use crate::value::Value;
        use std::any::TypeId;

        /*@STRUCT_CONSTANT@*/

        impl Constant {
            /*@FN_CONSTANT_NEW@*/
        }

        include!("harness.rs");
    }
}

/// the Rust-side constructor of a list (src/value/list.rs `boundary::List::<T>::new`): which element
/// layout and which clone / drop / eq functions the list is created with
pub mod list_unit {
    use crate::value::Value;
    use std::alloc::Layout;
    use std::marker::PhantomData;
    #[path = "/repo/src/value/vtable.rs"]
    pub mod vtable;
    use vtable::{CloneFn, DropFn, EqFn, VTable};

    /*@FN_EXTERN_CLONE@*/

    /*@FN_EXTERN_DROP@*/

    /*@FN_EXTERN_EQ@*/

    pub struct ErasedList {
        pub vtable: VTable,
    }
    impl ErasedList {
        pub fn new(vtable: VTable) -> Self {
            ErasedList { vtable }
        }
    }
    pub struct List<T: Value> {
        pub inner: ErasedList,
        pub _phantom: PhantomData<T>,
    }
    impl<T: Value> List<T>
    where
        T::Transformed: PartialEq,
    {
        /*@FN_LIST_NEW@*/
    }

    include!("harness_list.rs");
}

fn main() {}
