// K-ex unit `codegen_arith` — assembled on every run by /verif/check.
// Everything that replaced a fragment marker of the template is the verbatim text of
// /repo (see unit.toml for file/selector, evidence for line ranges and SHA-256).
// Everything else is the trusted environment shim and the contracts.
#![allow(dead_code, unused_imports, unused_variables, unused_mut, non_upper_case_globals, non_snake_case)]
#![allow(clippy::all)]

pub const FIND_HELP: &str = "";
// shim: the real macro formats a message; the message is not part of any contract
macro_rules! ice {
    ($($t:tt)*) => {
        panic!("ice")
    };
}
pub(crate) use ice;

pub mod ast {
    /// shim of ast::Identifier (an interned symbol): same derives, never inspected here
    #[derive(Clone, Copy, Debug, PartialEq, Eq, PartialOrd, Ord, Hash)]
    pub struct Identifier(pub u32);
}

pub mod label {
    #[derive(Clone, Copy, Debug, PartialEq, Eq, Hash)]
    pub struct LabelRef(pub usize);
}

pub mod typechecker {
    pub mod scope {
        use crate::ast::Identifier;
        #[derive(Clone, Copy, Debug, PartialEq, Eq, PartialOrd, Ord, Hash)]
        pub struct ScopeRef(pub usize);
        #[derive(Clone, Copy, Debug, PartialEq, Eq, PartialOrd, Ord, Hash)]
        pub struct ResolvedName {
            pub scope: ScopeRef,
            pub ident: Identifier,
        }
    }
}

pub mod runtime {
    #[derive(Clone, Copy, Debug, PartialEq, Eq, Hash)]
    pub struct RuntimeFunctionRef(pub usize);
    #[path = "/repo/src/runtime/layout.rs"]
    pub mod layout;
}

pub mod value {
    pub struct RotoString;
    type T = ();
    pub type CloneFn = unsafe extern "C" fn(*mut T, *const T);
    pub type DropFn = unsafe extern "C" fn(*mut T);
    pub type EqFn = unsafe extern "C" fn(*const T, *const T) -> bool;
}

pub mod lir {
    use crate::{
        ast::Identifier,
        label::LabelRef,
        runtime::{self, layout::Layout},
        typechecker::scope::{ResolvedName, ScopeRef},
        value::RotoString,
        value::{CloneFn, DropFn, EqFn},
    };
    pub use value::{IrType, IrValue};

    // the real file
    #[path = "/repo/src/lir/value.rs"]
    pub mod value;

    /*@STRUCT_VAR@*/

    /*@ENUM_VARKIND@*/

    /*@ENUM_OPERAND@*/

    /*@ENUM_INTCMP@*/

    /*@ENUM_FLOATCMP@*/
}

// ---------------------------------------------------------------------------
// Mock Cranelift (trusted shim): one node per emitted instruction.
// Integer opcodes carry Cranelift reference semantics, evaluated eagerly so that a
// contract can talk about the *value* an emitted sequence computes; float opcodes are
// recorded structurally only (opcode + operand nodes).
// ---------------------------------------------------------------------------
pub mod mock {
    #[derive(Clone, Copy, PartialEq, Eq, Debug)]
    pub struct Type(pub u8);
    pub const I8: Type = Type(0);
    pub const I16: Type = Type(1);
    pub const I32: Type = Type(2);
    pub const I64: Type = Type(3);
    pub const F32: Type = Type(4);
    pub const F64: Type = Type(5);
    impl Type {
        pub fn bits(self) -> u32 {
            match self.0 {
                0 => 8,
                1 => 16,
                2 | 4 => 32,
                _ => 64,
            }
        }
        pub fn is_int(self) -> bool {
            self.0 <= 3
        }
        pub fn is_float(self) -> bool {
            self.0 == 4 || self.0 == 5
        }
        pub fn mask(self) -> u64 {
            match self.bits() {
                8 => 0xff,
                16 => 0xffff,
                32 => 0xffff_ffff,
                _ => u64::MAX,
            }
        }
    }

    #[derive(Clone, Copy, PartialEq, Eq, Debug)]
    pub enum IntCC {
        Equal,
        NotEqual,
        SignedLessThan,
        SignedGreaterThanOrEqual,
        SignedGreaterThan,
        SignedLessThanOrEqual,
        UnsignedLessThan,
        UnsignedGreaterThanOrEqual,
        UnsignedGreaterThan,
        UnsignedLessThanOrEqual,
    }
    #[derive(Clone, Copy, PartialEq, Eq, Debug)]
    pub enum FloatCC {
        Ordered,
        Unordered,
        Equal,
        NotEqual,
        OrderedNotEqual,
        UnorderedOrEqual,
        LessThan,
        LessThanOrEqual,
        GreaterThan,
        GreaterThanOrEqual,
        UnorderedOrLessThan,
        UnorderedOrLessThanOrEqual,
        UnorderedOrGreaterThan,
        UnorderedOrGreaterThanOrEqual,
    }

    #[derive(Clone, Copy, PartialEq, Eq, Debug)]
    pub struct Value(pub usize);
    #[derive(Clone, Copy, PartialEq, Eq, Debug)]
    pub struct Variable(pub usize);

    #[derive(Clone, Copy, PartialEq, Eq, Debug)]
    pub enum Kind {
        /// a value that already existed before the unit ran (a use of a defined variable)
        Input,
        Iconst(i64),
        F32const(u32),
        F64const(u64),
        Bin(Opcode, Value, Value),
        Un(Opcode, Value),
        Icmp(IntCC, Value, Value),
        IcmpImm(IntCC, Value, i64),
        Fcmp(FloatCC, Value, Value),
        /// load.ty flags addr+offset
        Load(Value, i32),
        /// iadd_imm v, imm
        IaddImm(Value, i64),
    }

    /// memory effects an arm emitted
    #[derive(Clone, Copy, PartialEq, Eq, Debug)]
    pub enum Effect {
        Store { val: Value, addr: Value, offset: i32 },
        MemCopy { dest: Value, src: Value, size: u64, non_overlapping: bool },
    }
    #[derive(Clone, Copy, PartialEq, Eq, Debug)]
    pub struct MemFlags;
    impl MemFlags {
        pub const fn new() -> Self {
            MemFlags
        }
        pub const fn with_aligned(self) -> Self {
            self
        }
    }
    #[derive(Clone, Copy, PartialEq, Eq, Debug)]
    pub struct TargetFrontendConfig;

    #[derive(Clone, Copy, Debug)]
    pub struct Node {
        pub ty: Type,
        pub kind: Kind,
        /// integer payload, zero-extended from `ty`'s width (meaningless for floats)
        pub bits: u64,
    }

    pub const MAXN: usize = 12;
    pub const MAXV: usize = 6;
    pub const MAXE: usize = 4;

    #[derive(Clone, Copy, PartialEq, Eq, Debug)]
    pub struct Block(pub usize);

    /// the block terminator an arm emitted (control transfer)
    #[derive(Clone, Copy, PartialEq, Eq, Debug)]
    pub enum Term {
        Jump(Block),
        /// brif cond, then, else: goes to `then` iff cond != 0
        Brif(Value, Block, Block),
        /// cranelift_frontend::Switch::emit: entry whose key equals the value, else `otherwise`
        Switch { val: Value, entries: [(u128, Block); MAXE], n: usize, otherwise: Block },
    }

    /// cranelift_frontend::Switch
    pub struct Switch {
        pub entries: [(u128, Block); MAXE],
        pub n: usize,
    }
    impl Switch {
        pub fn new() -> Self {
            Switch { entries: [(0, Block(0)); MAXE], n: 0 }
        }
        pub fn set_entry(&mut self, index: u128, block: Block) {
            // Cranelift: "panics if the index already has an entry"
            let mut i = 0;
            while i < self.n {
                assert!(self.entries[i].0 != index, "mock: Switch::set_entry twice for one index");
                i += 1;
            }
            assert!(self.n < MAXE, "mock: switch table full");
            self.entries[self.n] = (index, block);
            self.n += 1;
        }
        pub fn emit(self, b: &mut FunctionBuilder<'_>, val: Value, otherwise: Block) {
            if !b.node(val).ty.is_int() {
                b.ill_typed = true;
            }
            b.terminate(Term::Switch { val, entries: self.entries, n: self.n, otherwise });
        }
    }

    pub struct FunctionBuilder<'c> {
        pub nodes: [Node; MAXN],
        pub n_nodes: usize,
        pub var_ty: [Type; MAXV],
        pub var_val: [Option<Value>; MAXV],
        pub var_defs: [u8; MAXV],
        pub n_vars: usize,
        /// set when an emitted instruction traps on the given operand values
        pub trapped: bool,
        /// evaluate integer value semantics (value-level harnesses) or record structure only
        pub eval: bool,
        /// set when Cranelift's verifier would reject an emitted instruction (operand type mismatch)
        pub ill_typed: bool,
        pub effect: Option<Effect>,
        pub n_effects: usize,
        pub n_blocks: usize,
        pub term: Option<Term>,
        pub n_terms: usize,
        pub _m: core::marker::PhantomData<&'c ()>,
    }

    pub struct FuncInstBuilder<'short, 'c> {
        pub b: &'short mut FunctionBuilder<'c>,
    }

    fn sext(ty: Type, x: u64) -> i64 {
        match ty.bits() {
            8 => x as u8 as i8 as i64,
            16 => x as u16 as i16 as i64,
            32 => x as u32 as i32 as i64,
            _ => x as i64,
        }
    }

    include!("cranelift_sem.rs");

    impl<'c> FunctionBuilder<'c> {
        pub fn new() -> Self {
            FunctionBuilder {
                nodes: [Node { ty: I8, kind: Kind::Input, bits: 0 }; MAXN],
                n_nodes: 0,
                var_ty: [I8; MAXV],
                var_val: [None; MAXV],
                var_defs: [0; MAXV],
                n_vars: 0,
                trapped: false,
                eval: false,
                ill_typed: false,
                effect: None,
                n_effects: 0,
                n_blocks: 0,
                term: None,
                n_terms: 0,
                _m: core::marker::PhantomData,
            }
        }
        pub fn push(&mut self, ty: Type, kind: Kind, bits: u64) -> Value {
            assert!(self.n_nodes < MAXN, "mock: node table full");
            let bits = if ty.is_int() { bits & ty.mask() } else { bits };
            self.nodes[self.n_nodes] = Node { ty, kind, bits };
            self.n_nodes += 1;
            Value(self.n_nodes - 1)
        }
        pub fn node(&self, v: Value) -> Node {
            self.nodes[v.0]
        }
        pub fn ins<'short>(&'short mut self) -> FuncInstBuilder<'short, 'c> {
            FuncInstBuilder { b: self }
        }
        /// cranelift_frontend::FunctionBuilder::emit_small_memory_copy
        #[allow(clippy::too_many_arguments)]
        pub fn emit_small_memory_copy(&mut self, _config: TargetFrontendConfig, dest: Value, src: Value, size: u64, _dest_align: u8, _src_align: u8, non_overlapping: bool, _flags: MemFlags) {
            if self.node(dest).ty != I64 || self.node(src).ty != I64 {
                self.ill_typed = true;
            }
            self.effect = Some(Effect::MemCopy { dest, src, size, non_overlapping });
            self.n_effects += 1;
        }
        pub fn create_block(&mut self) -> Block {
            self.n_blocks += 1;
            Block(self.n_blocks - 1)
        }
        pub fn terminate(&mut self, t: Term) {
            self.term = Some(t);
            self.n_terms += 1;
        }
        /// where control goes after the emitted terminator when the tested value has the bits it
        /// has in this world
        pub fn target(&self) -> Option<Block> {
            match self.term {
                None => None,
                Some(Term::Jump(b)) => Some(b),
                Some(Term::Brif(c, t, e)) => Some(if self.node(c).bits != 0 { t } else { e }),
                Some(Term::Switch { val, entries, n, otherwise }) => {
                    let v = self.node(val).bits as u128;
                    let mut i = 0;
                    let mut r = otherwise;
                    while i < n {
                        if entries[i].0 == v {
                            r = entries[i].1;
                        }
                        i += 1;
                    }
                    Some(r)
                }
            }
        }
        pub fn declare_var(&mut self, ty: Type) -> Variable {
            assert!(self.n_vars < MAXV, "mock: variable table full");
            self.var_ty[self.n_vars] = ty;
            self.n_vars += 1;
            Variable(self.n_vars - 1)
        }
        pub fn def_var(&mut self, var: Variable, val: Value) {
            // Cranelift: "the value supplied must be of the same type as the variable"
            if self.node(val).ty != self.var_ty[var.0] {
                self.ill_typed = true;
            }
            self.var_val[var.0] = Some(val);
            self.var_defs[var.0] = self.var_defs[var.0].saturating_add(1);
        }
        pub fn use_var(&mut self, var: Variable) -> Value {
            match self.var_val[var.0] {
                Some(v) => v,
                None => panic!("mock: use of a variable that was never defined"),
            }
        }
    }

    impl<'short, 'c> FuncInstBuilder<'short, 'c> {
        fn bin(self, op: Opcode, l: Value, r: Value) -> Value {
            let (a, b) = (self.b.node(l), self.b.node(r));
            let ty = a.ty;
            let float_op = matches!(op, Opcode::Fadd | Opcode::Fsub | Opcode::Fmul | Opcode::Fdiv);
            if a.ty != b.ty || (float_op != ty.is_float()) {
                self.b.ill_typed = true;
            }
            // value semantics are evaluated at the native width of the controlling type and
            // only when the harness asked for them (`eval`); otherwise the node is structural
            let bits = if float_op || !ty.is_int() || !self.b.eval {
                0
            } else {
                let mut trap = false;
                let v = match ty.0 {
                    0 => sem_i8(op, a.bits as u8, b.bits as u8, &mut trap) as u64,
                    1 => sem_i16(op, a.bits as u16, b.bits as u16, &mut trap) as u64,
                    2 => sem_i32(op, a.bits as u32, b.bits as u32, &mut trap) as u64,
                    _ => sem_i64(op, a.bits, b.bits, &mut trap),
                };
                if trap {
                    self.b.trapped = true;
                }
                v
            };
            self.b.push(ty, Kind::Bin(op, l, r), bits)
        }
        pub fn store<O: Into<i32>>(self, _flags: MemFlags, x: Value, p: Value, offset: O) {
            if self.b.node(p).ty != I64 {
                self.b.ill_typed = true;
            }
            self.b.effect = Some(Effect::Store { val: x, addr: p, offset: offset.into() });
            self.b.n_effects += 1;
        }
        pub fn load<O: Into<i32>>(self, ty: Type, _flags: MemFlags, p: Value, offset: O) -> Value {
            if self.b.node(p).ty != I64 {
                self.b.ill_typed = true;
            }
            self.b.push(ty, Kind::Load(p, offset.into()), 0)
        }
        pub fn iadd_imm(self, v: Value, imm: i64) -> Value {
            let a = self.b.node(v);
            if !a.ty.is_int() {
                self.b.ill_typed = true;
            }
            let bits = a.bits.wrapping_add(imm as u64);
            self.b.push(a.ty, Kind::IaddImm(v, imm), bits)
        }
        pub fn jump(self, block: Block, args: &[Value]) {
            assert!(args.is_empty(), "mock: block arguments are not modelled");
            self.b.terminate(Term::Jump(block));
        }
        pub fn brif(self, c: Value, then_block: Block, then_args: &[Value], else_block: Block, else_args: &[Value]) {
            assert!(then_args.is_empty() && else_args.is_empty(), "mock: block arguments are not modelled");
            if !self.b.node(c).ty.is_int() {
                self.b.ill_typed = true;
            }
            self.b.terminate(Term::Brif(c, then_block, else_block));
        }
        pub fn iadd(self, l: Value, r: Value) -> Value {
            self.bin(Opcode::Iadd, l, r)
        }
        pub fn isub(self, l: Value, r: Value) -> Value {
            self.bin(Opcode::Isub, l, r)
        }
        pub fn imul(self, l: Value, r: Value) -> Value {
            self.bin(Opcode::Imul, l, r)
        }
        pub fn sdiv(self, l: Value, r: Value) -> Value {
            self.bin(Opcode::Sdiv, l, r)
        }
        pub fn udiv(self, l: Value, r: Value) -> Value {
            self.bin(Opcode::Udiv, l, r)
        }
        pub fn srem(self, l: Value, r: Value) -> Value {
            self.bin(Opcode::Srem, l, r)
        }
        pub fn urem(self, l: Value, r: Value) -> Value {
            self.bin(Opcode::Urem, l, r)
        }
        pub fn fadd(self, l: Value, r: Value) -> Value {
            self.bin(Opcode::Fadd, l, r)
        }
        pub fn fsub(self, l: Value, r: Value) -> Value {
            self.bin(Opcode::Fsub, l, r)
        }
        pub fn fmul(self, l: Value, r: Value) -> Value {
            self.bin(Opcode::Fmul, l, r)
        }
        pub fn fdiv(self, l: Value, r: Value) -> Value {
            self.bin(Opcode::Fdiv, l, r)
        }
        pub fn ineg(self, v: Value) -> Value {
            let a = self.b.node(v);
            if !a.ty.is_int() {
                self.b.ill_typed = true;
            }
            let bits = 0u64.wrapping_sub(a.bits) & a.ty.mask();
            self.b.push(a.ty, Kind::Un(Opcode::Ineg, v), bits)
        }
        pub fn fneg(self, v: Value) -> Value {
            let a = self.b.node(v);
            if !a.ty.is_float() {
                self.b.ill_typed = true;
            }
            self.b.push(a.ty, Kind::Un(Opcode::Fneg, v), 0)
        }
        pub fn eval_cc(cc: IntCC, ty: Type, x: u64, y: u64) -> bool {
            let (sx, sy) = (sext(ty, x), sext(ty, y));
            match cc {
                IntCC::Equal => x == y,
                IntCC::NotEqual => x != y,
                IntCC::SignedLessThan => sx < sy,
                IntCC::SignedGreaterThanOrEqual => sx >= sy,
                IntCC::SignedGreaterThan => sx > sy,
                IntCC::SignedLessThanOrEqual => sx <= sy,
                IntCC::UnsignedLessThan => x < y,
                IntCC::UnsignedGreaterThanOrEqual => x >= y,
                IntCC::UnsignedGreaterThan => x > y,
                IntCC::UnsignedLessThanOrEqual => x <= y,
            }
        }
        pub fn icmp(self, cc: IntCC, l: Value, r: Value) -> Value {
            let (a, b) = (self.b.node(l), self.b.node(r));
            if a.ty != b.ty || !a.ty.is_int() {
                self.b.ill_typed = true;
            }
            let m = a.ty.mask();
            let res = Self::eval_cc(cc, a.ty, a.bits & m, b.bits & m);
            self.b.push(I8, Kind::Icmp(cc, l, r), res as u64)
        }
        pub fn icmp_imm(self, cc: IntCC, l: Value, imm: i64) -> Value {
            let a = self.b.node(l);
            if !a.ty.is_int() {
                self.b.ill_typed = true;
            }
            let m = a.ty.mask();
            let res = Self::eval_cc(cc, a.ty, a.bits & m, (imm as u64) & m);
            self.b.push(I8, Kind::IcmpImm(cc, l, imm), res as u64)
        }
        pub fn fcmp(self, cc: FloatCC, l: Value, r: Value) -> Value {
            let (a, b) = (self.b.node(l), self.b.node(r));
            if a.ty != b.ty || !a.ty.is_float() {
                self.b.ill_typed = true;
            }
            self.b.push(I8, Kind::Fcmp(cc, l, r), 0)
        }
        pub fn iconst(self, ty: Type, imm: i64) -> Value {
            if !ty.is_int() {
                self.b.ill_typed = true;
            }
            self.b.push(ty, Kind::Iconst(imm), imm as u64)
        }
        pub fn f32const(self, x: f32) -> Value {
            self.b.push(F32, Kind::F32const(x.to_bits()), x.to_bits() as u64)
        }
        pub fn f64const(self, x: f64) -> Value {
            self.b.push(F64, Kind::F64const(x.to_bits()), x.to_bits())
        }
    }

    pub mod ir {
        pub use super::Value;
    }

    pub struct Isa;
    impl Isa {
        pub fn frontend_config(&self) -> super::mock::TargetFrontendConfig {
            super::mock::TargetFrontendConfig
        }
        pub fn pointer_type(&self) -> super::mock::Type {
            I64
        }
    }

    /// array-backed stand-in for HashMap<Var, (Variable, Type)> (capacity 4, no heap, no unbounded loop)
    pub struct VarMap<K, V> {
        pub items: [Option<(K, V)>; 4],
    }
    pub struct Entry<'a, K, V> {
        m: &'a mut VarMap<K, V>,
        k: K,
    }
    impl<K: PartialEq, V> VarMap<K, V> {
        pub fn new() -> Self {
            VarMap { items: [None, None, None, None] }
        }
        pub fn len(&self) -> usize {
            let mut n = 0;
            let mut i = 0;
            while i < 4 {
                if self.items[i].is_some() {
                    n += 1;
                }
                i += 1;
            }
            n
        }
        fn find(&self, k: &K) -> Option<usize> {
            let mut i = 0;
            while i < 4 {
                if let Some((kk, _)) = &self.items[i] {
                    if *kk == *k {
                        return Some(i);
                    }
                }
                i += 1;
            }
            None
        }
        pub fn insert(&mut self, k: K, v: V) {
            let mut i = 0;
            while i < 4 {
                if self.items[i].is_none() {
                    self.items[i] = Some((k, v));
                    return;
                }
                i += 1;
            }
            panic!("mock: variable map full");
        }
        pub fn contains_key(&self, k: &K) -> bool {
            self.find(k).is_some()
        }
        pub fn get(&self, k: &K) -> Option<&V> {
            match self.find(k) {
                Some(i) => self.items[i].as_ref().map(|kv| &kv.1),
                None => None,
            }
        }
        pub fn entry(&mut self, k: K) -> Entry<'_, K, V> {
            Entry { m: self, k }
        }
    }
    impl<'a, K: PartialEq, V> Entry<'a, K, V> {
        pub fn or_insert_with<F: FnOnce() -> V>(self, f: F) -> &'a mut V {
            let at = match self.m.find(&self.k) {
                Some(i) => i,
                None => {
                    let mut i = 0;
                    let mut free = 4;
                    while i < 4 {
                        if self.m.items[i].is_none() && free == 4 {
                            free = i;
                        }
                        i += 1;
                    }
                    assert!(free < 4, "mock: variable map full");
                    self.m.items[free] = Some((self.k, f()));
                    free
                }
            };
            match &mut self.m.items[at] {
                Some(kv) => &mut kv.1,
                None => unreachable!(),
            }
        }
    }
    impl<K: core::fmt::Debug, V> core::fmt::Debug for VarMap<K, V> {
        fn fmt(&self, f: &mut core::fmt::Formatter<'_>) -> core::fmt::Result {
            f.write_str("VarMap")
        }
    }
}

// ---------------------------------------------------------------------------
// The unit: verbatim text of src/codegen/mod.rs inside shim structs of the same shape
// ---------------------------------------------------------------------------
pub mod codegen {
    use crate::ice;
    use crate::lir::{self, value::IrType, FloatCmp, IntCmp, IrValue, Operand, Var, VarKind};
    #[allow(unused_imports)]
    use crate::label::LabelRef;
    use crate::mock::{ir, Block, Switch, MemFlags, FloatCC, FuncInstBuilder, FunctionBuilder, IntCC, Isa, Type, VarMap, Variable, F32, F64, I16, I32, I64, I8};

    const MEMFLAGS: MemFlags = MemFlags::new().with_aligned();

    pub struct ModuleBuilder {
        pub variable_map: VarMap<Var, (Variable, Type)>,
        pub isa: Isa,
    }

    pub struct FuncGen<'c> {
        pub module: &'c mut ModuleBuilder,
        pub builder: FunctionBuilder<'c>,
        pub block_map: VarMap<LabelRef, Block>,
    }

    impl ModuleBuilder {
        /*@FN_CRANELIFT_TYPE@*/
    }

    impl<'c> FuncGen<'c> {
        // the extracted arms of `FuncGen::instruction` (bodies verbatim, see unit.toml)
        /*@ARM_ASSIGN@*/
        /*@ARM_INTCMP@*/
        /*@ARM_FLOATCMP@*/
        /*@ARM_NOT@*/
        /*@ARM_NEGATE@*/
        /*@ARM_ADD@*/
        /*@ARM_SUB@*/
        /*@ARM_MUL@*/
        /*@ARM_DIV@*/
        /*@ARM_FDIV@*/
        /*@ARM_MOD@*/
        /*@ARM_WRITE@*/
        /*@ARM_READ@*/
        /*@ARM_OFFSET@*/
        /*@ARM_COPY@*/
        /*@ARM_SWITCH@*/
        // the arm `lir::Instruction::Jump(label) => BODY` (tuple pattern: parameter written by hand)
        pub fn arm_jump(&mut self, label: &LabelRef) /*@ARM_JUMP@*/

        /*@FN_GET_BLOCK@*/

        /*@FN_INS@*/

        /*@FN_DEF@*/

        /*@FN_OPERAND@*/

        /*@FN_INTEGER_OPERAND@*/

        /*@FN_FLOAT_OPERAND@*/

        /*@FN_VARIABLE@*/

        /*@FN_INT_CMP@*/

        /*@FN_FLOAT_CMP@*/
    }

    // contracts (child module: the extracted methods are private, as in the real crate)
    include!("harness.rs");
}

fn main() {}
