// Contracts for the extracted arms of FuncGen::instruction (C01-U3/U4/U7/U8, C10-U1/U2).
// Shape of every harness:  assume(requires); call the real text; assert(ensures).
// Postconditions are written from the property statements:
//   C01: "fixed-width two's-complement integers that wrap on overflow with division
//         truncating toward zero ... comparisons that respect the signedness"
//   C10: "every arithmetic operator on every pair of operands of its type returns a value
//         instead of raising a hardware trap"
mod h {
    use crate::codegen::*;
    use crate::lir::{self, value::IrType, FloatCmp, IntCmp, IrValue, Operand, Var, VarKind};
    use crate::mock::*;
    use crate::typechecker::scope::ScopeRef;

    fn var(i: usize) -> Var {
        Var { scope: ScopeRef(0), kind: VarKind::Tmp(i) }
    }

    fn any_int_type() -> Type {
        let k: u8 = kani::any();
        kani::assume(k < 4);
        Type(k)
    }
    fn any_type() -> Type {
        let k: u8 = kani::any();
        kani::assume(k < 6);
        Type(k)
    }

    /// A FuncGen in which tmp0 and tmp1 are defined variables of type `ty` holding a and b.
    fn new_module() -> ModuleBuilder {
        ModuleBuilder { variable_map: VarMap::new(), isa: Isa }
    }
    fn setup<'c>(module: &'c mut ModuleBuilder, ty: Type, a: u64, b: u64) -> (FuncGen<'c>, Value, Value) {
        setup_eval(module, ty, a, b, false)
    }
    fn setup_eval<'c>(module: &'c mut ModuleBuilder, ty: Type, a: u64, b: u64, eval: bool) -> (FuncGen<'c>, Value, Value) {
        let mut g = FuncGen { module, builder: FunctionBuilder::new(), block_map: VarMap::new() };
        g.builder.eval = eval;
        let va = g.builder.declare_var(ty);
        let na = g.builder.push(ty, Kind::Input, a);
        g.builder.def_var(va, na);
        g.module.variable_map.insert(var(0), (va, ty));
        let vb = g.builder.declare_var(ty);
        let nb = g.builder.push(ty, Kind::Input, b);
        g.builder.def_var(vb, nb);
        g.module.variable_map.insert(var(1), (vb, ty));
        (g, na, nb)
    }

    /// what the unit did to the result variable `tmp2`
    struct Outcome {
        declared_ty: Type,
        defs: u8,
        node: Node,
        inputs_untouched: bool,
    }
    fn outcome(g: &FuncGen<'_>) -> Outcome {
        let (v, ty) = *g.module.variable_map.get(&var(2)).expect("result variable was not declared");
        let val = g.builder.var_val[v.0].expect("result variable was not defined");
        Outcome {
            declared_ty: g.builder.var_ty[v.0],
            defs: g.builder.var_defs[v.0],
            node: g.builder.node(val),
            inputs_untouched: g.builder.var_defs[0] == 1
                && g.builder.var_defs[1] == 1
                && g.builder.var_val[0] == Some(Value(0))
                && g.builder.var_val[1] == Some(Value(1))
                && g.module.variable_map.len() == 3,
        }
    }

    fn place(i: usize) -> Operand {
        Operand::Place(var(i))
    }

    // ----------------------------------------------------------------- opcode level
    /// C01-U4: Add/Sub/Mul select iadd/isub/imul for integer operands and fadd/fsub/fmul for
    /// float operands, left operand first, result defined exactly once with the operand type.
    #[kani::proof]
    fn c01_u4_addsubmul_opcode() {
        let ty = any_type();
        let (a, b): (u64, u64) = (kani::any(), kani::any());
        let mut m = new_module();
        let (mut g, na, nb) = setup(&mut m, ty, a, b);
        let which: u8 = kani::any();
        kani::assume(which < 3);
        match which {
            0 => g.arm_add(&var(2), &place(0), &place(1)),
            1 => g.arm_sub(&var(2), &place(0), &place(1)),
            _ => g.arm_mul(&var(2), &place(0), &place(1)),
        };
        let o = outcome(&g);
        let expect = match (which, ty.is_float()) {
            (0, false) => Opcode::Iadd,
            (1, false) => Opcode::Isub,
            (2, false) => Opcode::Imul,
            (0, true) => Opcode::Fadd,
            (1, true) => Opcode::Fsub,
            _ => Opcode::Fmul,
        };
        assert!(o.node.kind == Kind::Bin(expect, na, nb), "OBL:C01.codegen.addsubmul.opcode_and_operand_order");
        assert!(o.declared_ty == ty && o.node.ty == ty, "OBL:C01.codegen.addsubmul.result_type_is_operand_type");
        assert!(o.defs == 1 && o.inputs_untouched, "OBL:C01.codegen.addsubmul.defines_only_result_once");
        assert!(!g.builder.ill_typed && g.builder.n_nodes == 3, "OBL:C01.codegen.addsubmul.single_well_typed_instruction");
        kani::cover!(ty.is_float() && which == 1, "COV:C01.codegen.fsub_reached");
        kani::cover!(!ty.is_float() && which == 2, "COV:C01.codegen.imul_reached");
    }

    /// C01-U4: Div/Mod pick the signed or unsigned opcode from the `signed` flag.
    #[kani::proof]
    fn c01_u4_divmod_opcode() {
        let ty = any_int_type();
        let (a, b): (u64, u64) = (kani::any(), kani::any());
        let signed: bool = kani::any();
        let is_div: bool = kani::any();
        let mut m = new_module();
        let (mut g, na, nb) = setup(&mut m, ty, a, b);
        if is_div {
            g.arm_div(&var(2), &signed, &place(0), &place(1))
        } else {
            g.arm_mod(&var(2), &signed, &place(0), &place(1))
        };
        let o = outcome(&g);
        let expect = match (is_div, signed) {
            (true, true) => Opcode::Sdiv,
            (true, false) => Opcode::Udiv,
            (false, true) => Opcode::Srem,
            (false, false) => Opcode::Urem,
        };
        assert!(o.node.kind == Kind::Bin(expect, na, nb), "OBL:C01.codegen.divmod.opcode_signedness_and_operand_order");
        assert!(o.declared_ty == ty && o.node.ty == ty, "OBL:C01.codegen.divmod.result_type_is_operand_type");
        assert!(o.defs == 1 && o.inputs_untouched, "OBL:C01.codegen.divmod.defines_only_result_once");
        assert!(!g.builder.ill_typed && g.builder.n_nodes == 3, "OBL:C01.codegen.divmod.single_well_typed_instruction");
        kani::cover!(signed && !is_div, "COV:C01.codegen.srem_reached");
        kani::cover!(!signed && is_div, "COV:C01.codegen.udiv_reached");
    }

    /// C01-U4: FDiv emits fdiv(l, r).
    #[kani::proof]
    fn c01_u4_fdiv_opcode() {
        let k: u8 = kani::any();
        kani::assume(k == 4 || k == 5);
        let ty = Type(k);
        let (a, b): (u64, u64) = (kani::any(), kani::any());
        let mut m = new_module();
        let (mut g, na, nb) = setup(&mut m, ty, a, b);
        g.arm_fdiv(&var(2), &place(0), &place(1));
        let o = outcome(&g);
        assert!(o.node.kind == Kind::Bin(Opcode::Fdiv, na, nb), "OBL:C01.codegen.fdiv.opcode_and_operand_order");
        assert!(o.declared_ty == ty && o.defs == 1 && o.inputs_untouched && !g.builder.ill_typed, "OBL:C01.codegen.fdiv.result_defined_once_with_operand_type");
        kani::cover!(k == 4, "COV:C01.codegen.fdiv_f32_reached");
    }

    /// C01-U4: Negate emits ineg for integers and fneg for floats.
    #[kani::proof]
    fn c01_u4_negate_opcode() {
        let ty = any_type();
        let a: u64 = kani::any();
        let mut m = new_module();
        let (mut g, na, _nb) = setup(&mut m, ty, a, 0);
        g.arm_negate(&var(2), &place(0));
        let o = outcome(&g);
        let expect = if ty.is_float() { Opcode::Fneg } else { Opcode::Ineg };
        assert!(o.node.kind == Kind::Un(expect, na), "OBL:C01.codegen.negate.opcode");
        assert!(o.declared_ty == ty && o.defs == 1 && o.inputs_untouched && !g.builder.ill_typed, "OBL:C01.codegen.negate.result_defined_once_with_operand_type");
        kani::cover!(ty.is_float(), "COV:C01.codegen.fneg_reached");
    }

    fn any_intcmp() -> (IntCmp, u8) {
        let k: u8 = kani::any();
        kani::assume(k < 10);
        (
            match k {
                0 => IntCmp::Eq,
                1 => IntCmp::Ne,
                2 => IntCmp::ULt,
                3 => IntCmp::ULe,
                4 => IntCmp::UGt,
                5 => IntCmp::UGe,
                6 => IntCmp::SLt,
                7 => IntCmp::SLe,
                8 => IntCmp::SGt,
                _ => IntCmp::SGe,
            },
            k,
        )
    }

    /// meaning of an IntCmp variant on N-bit patterns, from the variant names
    /// (U* = unsigned order, S* = two's-complement signed order)
    fn spec_intcmp(k: u8, bits: u32, a: u64, b: u64) -> bool {
        let sh = 64 - bits;
        let (sa, sb) = (((a << sh) as i64) >> sh, ((b << sh) as i64) >> sh);
        match k {
            0 => a == b,
            1 => a != b,
            2 => a < b,
            3 => a <= b,
            4 => a > b,
            5 => a >= b,
            6 => sa < sb,
            7 => sa <= sb,
            8 => sa > sb,
            _ => sa >= sb,
        }
    }

    /// C01-U3/U4: IntCmp arm + int_cmp: the condition code has the meaning of the variant,
    /// for every variant, every integer width and every operand pair (value level, all widths).
    #[kani::proof]
    fn c01_u3_intcmp_value() {
        let ty = any_int_type();
        let (a, b): (u64, u64) = (kani::any(), kani::any());
        kani::assume(a <= ty.mask() && b <= ty.mask());
        let (cmp, k) = any_intcmp();
        let mut m = new_module();
        let (mut g, na, nb) = setup(&mut m, ty, a, b);
        g.arm_intcmp(&var(2), &cmp, &place(0), &place(1));
        let o = outcome(&g);
        assert!(matches!(o.node.kind, Kind::Icmp(_, l, r) if l == na && r == nb), "OBL:C01.codegen.intcmp.icmp_with_operand_order");
        assert!(o.node.bits == spec_intcmp(k, ty.bits(), a, b) as u64, "OBL:C01.codegen.intcmp.condition_code_meaning");
        assert!(o.declared_ty == I8 && o.node.ty == I8 && o.defs == 1 && o.inputs_untouched && !g.builder.ill_typed, "OBL:C01.codegen.intcmp.bool_result_defined_once");
        kani::cover!(k == 6 && ty == I16 && o.node.bits == 1 && a > b, "COV:C01.codegen.intcmp_signed_differs_from_unsigned");
    }

    /// C01-U3/U4: FloatCmp arm + float_cmp: ordered comparisons, variant by variant.
    #[kani::proof]
    fn c01_u3_floatcmp_opcode() {
        let k: u8 = kani::any();
        kani::assume(k == 4 || k == 5);
        let ty = Type(k);
        let (a, b): (u64, u64) = (kani::any(), kani::any());
        let c: u8 = kani::any();
        kani::assume(c < 6);
        let (cmp, expect) = match c {
            0 => (FloatCmp::Eq, FloatCC::Equal),
            1 => (FloatCmp::Ne, FloatCC::NotEqual),
            2 => (FloatCmp::Lt, FloatCC::LessThan),
            3 => (FloatCmp::Le, FloatCC::LessThanOrEqual),
            4 => (FloatCmp::Gt, FloatCC::GreaterThan),
            _ => (FloatCmp::Ge, FloatCC::GreaterThanOrEqual),
        };
        let mut m = new_module();
        let (mut g, na, nb) = setup(&mut m, ty, a, b);
        g.arm_floatcmp(&var(2), &cmp, &place(0), &place(1));
        let o = outcome(&g);
        assert!(o.node.kind == Kind::Fcmp(expect, na, nb), "OBL:C01.codegen.floatcmp.ieee_condition_code_and_operand_order");
        assert!(o.declared_ty == I8 && o.defs == 1 && o.inputs_untouched && !g.builder.ill_typed, "OBL:C01.codegen.floatcmp.bool_result_defined_once");
        kani::cover!(c == 5, "COV:C01.codegen.floatcmp_ge_reached");
    }

    /// C01-U4: Not on a bool (0/1 in an i8) yields the other bool.
    #[kani::proof]
    fn c01_u4_not_value() {
        let a: u64 = kani::any();
        kani::assume(a <= 1);
        let mut m = new_module();
        let (mut g, _na, _nb) = setup(&mut m, I8, a, 0);
        g.arm_not(&var(2), &place(0));
        let o = outcome(&g);
        assert!(o.node.bits == 1 - a, "OBL:C01.codegen.not.boolean_negation");
        assert!(o.declared_ty == I8 && o.node.ty == I8 && o.defs == 1 && o.inputs_untouched && !g.builder.ill_typed, "OBL:C01.codegen.not.bool_result_defined_once");
        kani::cover!(a == 1, "COV:C01.codegen.not_true_reached");
    }

    fn any_irtype() -> IrType {
        let k: u8 = kani::any();
        kani::assume(k < 14);
        match k {
            0 => IrType::Bool,
            1 => IrType::U8,
            2 => IrType::U16,
            3 => IrType::U32,
            4 => IrType::U64,
            5 => IrType::I8,
            6 => IrType::I16,
            7 => IrType::I32,
            8 => IrType::I64,
            9 => IrType::F32,
            10 => IrType::F64,
            11 => IrType::Char,
            12 => IrType::Asn,
            _ => IrType::Pointer,
        }
    }

    /// C01-U8: the machine type chosen for an IR type has the IR type's size, is a float type
    /// exactly for f32/f64, and Assign declares the target with it and defines it once with
    /// the operand's value.
    #[kani::proof]
    fn c01_u8_cranelift_type_and_assign() {
        let irty = any_irtype();
        let mut m = new_module();
        let cl = m.cranelift_type(&irty);
        assert!((cl.bits() / 8) as usize == irty.bytes(), "OBL:C01.codegen.cranelift_type.width_equals_irtype_bytes");
        assert!(cl.is_float() == matches!(irty, IrType::F32 | IrType::F64), "OBL:C01.codegen.cranelift_type.float_iff_float");
        let a: u64 = kani::any();
        let (mut g, na, _nb) = setup(&mut m, cl, a, 0);
        g.arm_assign(&var(2), &place(0), &irty);
        let o = outcome(&g);
        assert!(o.declared_ty == cl && o.defs == 1 && o.inputs_untouched && !g.builder.ill_typed, "OBL:C01.codegen.assign.declares_with_cranelift_type_defines_once");
        assert!(g.builder.var_val[2] == Some(na) && g.builder.n_nodes == 2, "OBL:C01.codegen.assign.value_is_operand_unchanged");
        kani::cover!(matches!(irty, IrType::Asn), "COV:C01.codegen.assign_asn_reached");
    }

    // ----------------------------------------------------------------- constants (U7)
    fn any_int_irvalue() -> (IrValue, Type, u64) {
        let k: u8 = kani::any();
        kani::assume(k < 12);
        match k {
            0 => {
                let x: bool = kani::any();
                (IrValue::Bool(x), I8, x as u64)
            }
            1 => {
                let x: u8 = kani::any();
                (IrValue::U8(x), I8, x as u64)
            }
            2 => {
                let x: u16 = kani::any();
                (IrValue::U16(x), I16, x as u64)
            }
            3 => {
                let x: u32 = kani::any();
                (IrValue::U32(x), I32, x as u64)
            }
            4 => {
                let x: u64 = kani::any();
                (IrValue::U64(x), I64, x)
            }
            5 => {
                let x: i8 = kani::any();
                (IrValue::I8(x), I8, x as u8 as u64)
            }
            6 => {
                let x: i16 = kani::any();
                (IrValue::I16(x), I16, x as u16 as u64)
            }
            7 => {
                let x: i32 = kani::any();
                (IrValue::I32(x), I32, x as u32 as u64)
            }
            8 => {
                let x: i64 = kani::any();
                (IrValue::I64(x), I64, x as u64)
            }
            9 => {
                let x: u32 = kani::any();
                (IrValue::Asn(inetnum::asn::Asn::from_u32(x)), I32, x as u64)
            }
            10 => {
                let x: char = kani::any();
                (IrValue::Char(x), I32, x as u32 as u64)
            }
            _ => {
                let x: usize = kani::any();
                (IrValue::Pointer(x), I64, x as u64)
            }
        }
    }

    /// C01-U7: a constant operand becomes an iconst of the machine type of its variant whose
    /// (truncated) immediate is the two's-complement bit pattern of the payload.
    #[kani::proof]
    fn c01_u7_integer_constant_operand() {
        let (v, ty, pattern) = any_int_irvalue();
        let mut m = new_module();
        let (mut g, _na, _nb) = setup(&mut m, I8, 0, 0);
        let (val, rty) = g.operand(&Operand::Value(v));
        let n = g.builder.node(val);
        assert!(rty == ty && n.ty == ty, "OBL:C01.codegen.const_operand.machine_type_of_variant");
        assert!(matches!(n.kind, Kind::Iconst(_)) && n.bits == pattern, "OBL:C01.codegen.const_operand.bit_pattern_preserved");
        assert!(!g.builder.ill_typed && g.builder.n_nodes == 3, "OBL:C01.codegen.const_operand.single_iconst");
        kani::cover!(ty == I16 && pattern == 0xffff, "COV:C01.codegen.const_i16_minus_one_reached");
    }

    /// C01-U7: float constants keep their exact bits (f32 payloads survive the detour through f64).
    #[kani::proof]
    fn c01_u7_float_constant_operand() {
        let mut m = new_module();
        let (mut g, _na, _nb) = setup(&mut m, I8, 0, 0);
        let is32: bool = kani::any();
        if is32 {
            let bits: u32 = kani::any();
            let x = f32::from_bits(bits);
            kani::assume(!x.is_nan());
            let (val, rty) = g.operand(&Operand::Value(IrValue::F32(x)));
            let n = g.builder.node(val);
            assert!(rty == F32 && n.kind == Kind::F32const(bits), "OBL:C01.codegen.const_operand.f32_bits_preserved");
        } else {
            let bits: u64 = kani::any();
            let x = f64::from_bits(bits);
            kani::assume(!x.is_nan());
            let (val, rty) = g.operand(&Operand::Value(IrValue::F64(x)));
            let n = g.builder.node(val);
            assert!(rty == F64 && n.kind == Kind::F64const(bits), "OBL:C01.codegen.const_operand.f64_bits_preserved");
        }
        kani::cover!(is32, "COV:C01.codegen.const_f32_reached");
    }

    /// C01-U4: a Place operand is the current value of the variable the map assigns to it
    /// (no fresh instruction), with the type recorded in the map.
    #[kani::proof]
    fn c01_u4_place_operand() {
        let ty = any_type();
        let (a, b): (u64, u64) = (kani::any(), kani::any());
        let mut m = new_module();
        let (mut g, na, nb) = setup(&mut m, ty, a, b);
        let second: bool = kani::any();
        let (val, rty) = g.operand(&place(second as usize));
        assert!(val == if second { nb } else { na }, "OBL:C01.codegen.place_operand.reads_the_named_variable");
        assert!(rty == ty && g.builder.n_nodes == 2, "OBL:C01.codegen.place_operand.type_from_map_no_instruction");
        kani::cover!(second, "COV:C01.codegen.place_second_reached");
    }

    // ----------------------------------------------------------------- value level
    // Language semantics, written from the property statement in a *wider* integer type $m
    // (i32 for 8/16-bit operands, i64 for 32-bit) so that the specification itself cannot wrap.
    // Reduction modulo 2^N is done by masking the two's-complement pattern.
    macro_rules! value_op {
        ($name:ident, $ty:expr, $bits:expr, $signed:expr, $m:ty, $um:ty, $op:expr) => {
            /// C01-U4 (value level): for every operand pair of this width the value defined by the
            /// arm equals the language-defined result; a trap is only possible for a zero divisor
            /// or MIN / -1 (the two cases recorded as C10's known finding).
            #[kani::proof]
            fn $name() {
                let (a, b): (u64, u64) = (kani::any(), kani::any());
                let mask: u64 = (1u64 << $bits) - 1;
                kani::assume(a <= mask && b <= mask);
                let op: u8 = $op;
                let mut m = new_module();
                let (mut g, _na, _nb) = setup_eval(&mut m, $ty, a, b, true);
                match op {
                    0 => g.arm_add(&var(2), &place(0), &place(1)),
                    1 => g.arm_sub(&var(2), &place(0), &place(1)),
                    2 => g.arm_mul(&var(2), &place(0), &place(1)),
                    3 => g.arm_div(&var(2), &$signed, &place(0), &place(1)),
                    4 => g.arm_mod(&var(2), &$signed, &place(0), &place(1)),
                    _ => g.arm_negate(&var(2), &place(0)),
                };
                let o = outcome(&g);
                let res = o.node.bits;
                // mathematical values of the operands and of the result
                let sext = |x: u64| -> $m {
                    let sh = <$m>::BITS - $bits;
                    ((x as $m) << sh) >> sh
                };
                let (ma, mb, mres): ($m, $m, $m) = if $signed { (sext(a), sext(b), sext(res)) } else { (a as $m, b as $m, res as $m) };
                let wrap = |x: $m| -> u64 { ((x as $um) as u64) & mask };
                let abs = |v: $m| -> $m { if v < 0 { -v } else { v } };
                // q = a / b "truncating toward zero": a == q*b + r, |r| < |b|, r == 0 or sign(r) == sign(a)
                let is_trunc_div = |q: $m| -> bool {
                    let r = ma - q * mb;
                    abs(r) < abs(mb) && (r == 0 || (r < 0) == (ma < 0))
                };
                let min: $m = -((1 as $m) << ($bits - 1));
                let trapped = g.builder.trapped;
                match op {
                    0 => assert!(res == wrap(ma + mb), "OBL:C01.codegen.value.add_wraps"),
                    1 => assert!(res == wrap(ma - mb), "OBL:C01.codegen.value.sub_wraps"),
                    2 => assert!(res == wrap(ma * mb), "OBL:C01.codegen.value.mul_wraps"),
                    3 => {
                        assert!(trapped || is_trunc_div(mres), "OBL:C01.codegen.value.div_truncates_toward_zero");
                        assert!(!trapped || mb == 0 || ($signed && ma == min && mb == -1), "OBL:C01.codegen.value.div_traps_only_on_zero_or_min_over_minus_one");
                    }
                    4 => {
                        // witness for the quotient, validated by the relational definition
                        let q: $m = if mb != 0 { ma / mb } else { 0 };
                        assert!(trapped || (is_trunc_div(q) && mres == ma - q * mb), "OBL:C01.codegen.value.mod_is_remainder_of_truncating_division");
                        assert!(!trapped || mb == 0, "OBL:C01.codegen.value.mod_traps_only_on_zero");
                    }
                    _ => assert!(res == wrap(-ma), "OBL:C01.codegen.value.negate_wraps"),
                }
                assert!(res <= mask && o.defs == 1 && !g.builder.ill_typed, "OBL:C01.codegen.value.result_in_range_defined_once");
                kani::cover!(!trapped && res > 1 && b > 1, "COV:C01.codegen.value.nontrivial_result_reached");
            }
        };
    }

    macro_rules! value_level {
        ($add:ident, $sub:ident, $mul:ident, $div:ident, $mod_:ident, $neg:ident, $canary:ident, $trapname:ident, $ty:expr, $bits:expr, $signed:expr, $m:ty, $um:ty) => {
            value_op!($add, $ty, $bits, $signed, $m, $um, 0u8);
            value_op!($sub, $ty, $bits, $signed, $m, $um, 1u8);
            value_op!($mul, $ty, $bits, $signed, $m, $um, 2u8);
            value_op!($div, $ty, $bits, $signed, $m, $um, 3u8);
            value_op!($mod_, $ty, $bits, $signed, $m, $um, 4u8);
            value_op!($neg, $ty, $bits, $signed, $m, $um, 5u8);

            /// canary: negated postcondition must fail
            #[kani::proof]
            fn $canary() {
                let (a, b): (u64, u64) = (kani::any(), kani::any());
                let mask: u64 = (1u64 << $bits) - 1;
                kani::assume(a <= mask && b <= mask);
                let mut m = new_module();
                let (mut g, _na, _nb) = setup_eval(&mut m, $ty, a, b, true);
                g.arm_sub(&var(2), &place(0), &place(1));
                let o = outcome(&g);
                let wrap = |x: $m| -> u64 { ((x as $um) as u64) & mask };
                assert!(o.node.bits != wrap((a as $m) - (b as $m)), "CANARY:C01.codegen.value.sub_wraps");
            }

            /// C10-U1: "returns a value instead of raising a hardware trap" for every operand pair.
            #[kani::proof]
            fn $trapname() {
                let (a, b): (u64, u64) = (kani::any(), kani::any());
                let mask: u64 = (1u64 << $bits) - 1;
                kani::assume(a <= mask && b <= mask);
                let is_div: bool = kani::any();
                let mut m = new_module();
                let (mut g, _na, _nb) = setup_eval(&mut m, $ty, a, b, true);
                if is_div {
                    g.arm_div(&var(2), &$signed, &place(0), &place(1))
                } else {
                    g.arm_mod(&var(2), &$signed, &place(0), &place(1))
                };
                let min_pat: u64 = 1u64 << ($bits - 1);
                let zero = b == 0;
                let min_over_minus_one = $signed && a == min_pat && b == mask;
                let trapped = g.builder.trapped;
                if is_div {
                    assert!(!(trapped && zero), "OBL:C10.codegen.div.no_trap_on_zero_divisor");
                    assert!(!(trapped && min_over_minus_one), "OBL:C10.codegen.div.no_trap_on_min_over_minus_one");
                    assert!(!(trapped && !zero && !min_over_minus_one), "OBL:C10.codegen.div.no_trap_elsewhere");
                } else {
                    assert!(!(trapped && zero), "OBL:C10.codegen.mod.no_trap_on_zero_divisor");
                    assert!(!(trapped && !zero), "OBL:C10.codegen.mod.no_trap_elsewhere");
                }
                kani::cover!(is_div && zero, "COV:C10.codegen.zero_divisor_reached");
            }
        };
    }

    value_level!(c01_u4_value_i8_add, c01_u4_value_i8_sub, c01_u4_value_i8_mul, c01_u4_value_i8_div, c01_u4_value_i8_mod, c01_u4_value_i8_neg, canary_c01_u4_value_i8, c10_u1_divmod_trap_i8, I8, 8u32, true, i32, u32);
    value_level!(c01_u4_value_u8_add, c01_u4_value_u8_sub, c01_u4_value_u8_mul, c01_u4_value_u8_div, c01_u4_value_u8_mod, c01_u4_value_u8_neg, canary_c01_u4_value_u8, c10_u1_divmod_trap_u8, I8, 8u32, false, i32, u32);
    value_level!(c01_u4_value_i16_add, c01_u4_value_i16_sub, c01_u4_value_i16_mul, c01_u4_value_i16_div, c01_u4_value_i16_mod, c01_u4_value_i16_neg, canary_c01_u4_value_i16, c10_u1_divmod_trap_i16, I16, 16u32, true, i64, u64);
    value_level!(c01_u4_value_u16_add, c01_u4_value_u16_sub, c01_u4_value_u16_mul, c01_u4_value_u16_div, c01_u4_value_u16_mod, c01_u4_value_u16_neg, canary_c01_u4_value_u16, c10_u1_divmod_trap_u16, I16, 16u32, false, i64, u64);
    // 32/64-bit value level: the specification needs >= 65-bit products and two symbolic 32/64-bit
    // dividers; CBMC does not finish (measured). Those widths are covered at opcode level, and the
    // mock semantics are the same macro text at every width.

    /// C10-U2: no arm other than Div/Mod can trap, for any operand type and value.
    #[kani::proof]
    fn c10_u2_other_arms_never_trap() {
        let ty = any_type();
        let (a, b): (u64, u64) = (kani::any(), kani::any());
        let mut m = new_module();
        let (mut g, _na, _nb) = setup(&mut m, ty, a, b);
        let which: u8 = kani::any();
        kani::assume(which < 8);
        let (cmp, _) = any_intcmp();
        match which {
            0 => g.arm_add(&var(2), &place(0), &place(1)),
            1 => g.arm_sub(&var(2), &place(0), &place(1)),
            2 => g.arm_mul(&var(2), &place(0), &place(1)),
            3 => g.arm_negate(&var(2), &place(0)),
            4 => {
                kani::assume(ty.is_float());
                g.arm_fdiv(&var(2), &place(0), &place(1))
            }
            5 => {
                kani::assume(ty.is_int());
                g.arm_intcmp(&var(2), &cmp, &place(0), &place(1))
            }
            6 => {
                kani::assume(ty.is_float());
                g.arm_floatcmp(&var(2), &FloatCmp::Lt, &place(0), &place(1))
            }
            _ => {
                kani::assume(ty == I8);
                g.arm_not(&var(2), &place(0))
            }
        };
        assert!(!g.builder.trapped, "OBL:C10.codegen.other_arms.no_trapping_opcode");
        assert!(!g.builder.ill_typed, "OBL:C10.codegen.other_arms.well_typed_for_cranelift");
        kani::cover!(which == 4, "COV:C10.codegen.fdiv_reached");
    }

    // ----------------------------------------------------------------- memory access
    /// C02 ("constructor arguments and field writes write exactly the component the source names",
    /// "reading a component yields the value last written"): the Write / Read / Offset / Copy arms
    /// touch exactly the addressed bytes: one store of the operand's value at the operand address,
    /// one load of exactly the width of the LIR type, base + offset for every u32 offset, one copy
    /// of exactly `size` bytes from source to destination.
    #[kani::proof]
    fn c02_k5_write_stores_the_value_at_the_address() {
        let ty = any_type();
        let (a, p): (u64, u64) = (kani::any(), kani::any());
        let mut m = new_module();
        let (mut g, na, _nb) = setup(&mut m, ty, a, 0);
        // tmp3: a pointer
        let vp = g.builder.declare_var(I64);
        let np = g.builder.push(I64, Kind::Input, p);
        g.builder.def_var(vp, np);
        g.module.variable_map.insert(var(3), (vp, I64));
        g.arm_write(&place(3), &place(0));
        assert!(g.builder.n_effects == 1 && g.builder.effect == Some(Effect::Store { val: na, addr: np, offset: 0 }), "OBL:C02.codegen.write.one_store_of_the_value_at_the_address");
        assert!(!g.builder.ill_typed && g.builder.n_terms == 0, "OBL:C02.codegen.write.well_typed_and_nothing_else");
        kani::cover!(ty == F32, "COV:C02.codegen.write_f32_reached");
    }

    #[kani::proof]
    fn c02_k5_read_loads_exactly_the_width_of_the_type() {
        let t = any_irtype();
        let p: u64 = kani::any();
        let mut m = new_module();
        let (mut g, np, _nb) = setup(&mut m, I64, p, 0);
        g.arm_read(&var(2), &place(0), &t);
        let o = outcome(&g);
        let want = g.module.cranelift_type(&t);
        assert!(o.node.kind == Kind::Load(np, 0) && o.node.ty == want && want.bits() as usize == t.bytes() * 8, "OBL:C02.codegen.read.one_load_of_the_width_of_the_type_at_the_address");
        assert!(o.declared_ty == want && o.defs == 1 && o.inputs_untouched && !g.builder.ill_typed && g.builder.n_effects == 0, "OBL:C02.codegen.read.result_defined_once_with_that_type");
        kani::cover!(t == IrType::U16, "COV:C02.codegen.read_u16_reached");
    }

    #[kani::proof]
    fn c02_k5_offset_adds_exactly_the_offset() {
        let p: u64 = kani::any();
        let off: u32 = kani::any();
        let mut m = new_module();
        let (mut g, _np, _nb) = setup_eval(&mut m, I64, p, 0, true);
        g.arm_offset(&var(2), &place(0), &off);
        let o = outcome(&g);
        assert!(o.node.ty == I64 && o.node.bits == p.wrapping_add(off as u64), "OBL:C02.codegen.offset.is_base_plus_offset_for_every_u32_offset");
        assert!(o.declared_ty == I64 && o.defs == 1 && o.inputs_untouched && !g.builder.ill_typed && g.builder.n_effects == 0, "OBL:C02.codegen.offset.pointer_result_defined_once");
        kani::cover!(off > 0x7fff_ffff, "COV:C02.codegen.offset_above_i32_max_reached");
    }

    #[kani::proof]
    fn c02_k5_copy_copies_exactly_size_bytes() {
        let (p, q): (u64, u64) = (kani::any(), kani::any());
        let size: u32 = kani::any();
        let mut m = new_module();
        let (mut g, np, nq) = setup(&mut m, I64, p, q);
        g.arm_copy(&place(0), &place(1), &size);
        let ok = match g.builder.effect {
            Some(Effect::MemCopy { dest, src, size: s, .. }) => dest == np && src == nq && s == size as u64,
            _ => false,
        };
        assert!(g.builder.n_effects == 1 && ok, "OBL:C02.codegen.copy.one_copy_of_exactly_size_bytes_from_source_to_destination");
        assert!(!g.builder.ill_typed && g.builder.n_terms == 0, "OBL:C02.codegen.copy.well_typed_and_nothing_else");
        kani::cover!(size == 3, "COV:C02.codegen.copy_three_bytes_reached");
    }

    #[kani::proof]
    fn canary_c02_k5_memory() {
        let p: u64 = kani::any();
        let off: u32 = kani::any();
        let mut m = new_module();
        let (mut g, _np, _nb) = setup_eval(&mut m, I64, p, 0, true);
        g.arm_offset(&var(2), &place(0), &off);
        let o = outcome(&g);
        assert!(o.node.bits == p, "CANARY:C02.codegen.offset_ignored");
    }

    // ----------------------------------------------------------------- control transfer
    /// C01 (match / if / while): the Switch arm sends control to the block of the branch whose
    /// index EQUALS the examined value and to the default block for every other value - for every
    /// examinee width, every value, and 0..3 branches with arbitrary distinct indices.
    fn switch_contract(n: usize) {
        let ty = any_int_type();
        let v: u64 = kani::any();
        let mut m = new_module();
        let (mut g, _na, _nb) = setup_eval(&mut m, ty, v, 0, true);
        let v = v & ty.mask();
        let idx: [usize; 3] = [kani::any(), kani::any(), kani::any()];
        kani::assume(idx[0] != idx[1] && idx[0] != idx[2] && idx[1] != idx[2]);
        let mut branches: Vec<(usize, LabelRef)> = Vec::new();
        let mut i = 0;
        while i < n {
            branches.push((idx[i], LabelRef(10 + i)));
            i += 1;
        }
        let default = LabelRef(20);
        g.arm_switch(&place(0), &branches, &default);
        // the label -> block map the arm left behind is what later blocks are emitted under
        let mut expect = g.block_map.get(&default).copied();
        let mut i = 0;
        while i < n {
            if idx[i] as u64 == v {
                expect = g.block_map.get(&LabelRef(10 + i)).copied();
            }
            i += 1;
        }
        assert!(g.builder.n_terms == 1 && expect.is_some() && g.builder.target() == expect, "OBL:C01.codegen.switch.goes_to_the_branch_whose_index_equals_the_value_else_default");
        // distinct labels keep distinct blocks
        let mut distinct = true;
        let mut i = 0;
        while i < n {
            if g.block_map.get(&LabelRef(10 + i)) == g.block_map.get(&default) {
                distinct = false;
            }
            let mut j = 0;
            while j < i {
                if g.block_map.get(&LabelRef(10 + i)) == g.block_map.get(&LabelRef(10 + j)) {
                    distinct = false;
                }
                j += 1;
            }
            i += 1;
        }
        assert!(distinct && !g.builder.ill_typed, "OBL:C01.codegen.switch.distinct_labels_get_distinct_blocks");
        kani::cover!(n == 0 || idx[0] as u64 == v, "COV:C01.codegen.switch_branch_taken");
        kani::cover!(n == 0 || (idx[0] as u64 != v && v != 0 && idx[0] != 0), "COV:C01.codegen.switch_nonzero_value_other_than_the_index");
    }
    #[kani::proof]
    #[kani::unwind(6)]
    fn c01_u4_switch_0_branches() { switch_contract(0); }
    #[kani::proof]
    #[kani::unwind(6)]
    fn c01_u4_switch_1_branch() { switch_contract(1); }
    #[kani::proof]
    #[kani::unwind(6)]
    fn c01_u4_switch_2_branches() { switch_contract(2); }
    #[kani::proof]
    #[kani::unwind(6)]
    fn c01_u4_switch_3_branches() { switch_contract(3); }

    /// a label that already has a block keeps it (a jump into a block emitted earlier)
    #[kani::proof]
    #[kani::unwind(6)]
    fn c01_u4_jump_and_block_identity() {
        let mut m = new_module();
        let (mut g, _na, _nb) = setup(&mut m, I8, 0, 0);
        let b1 = g.get_block(LabelRef(5));
        let b2 = g.get_block(LabelRef(6));
        let b1again = g.get_block(LabelRef(5));
        assert!(b1 == b1again && b1 != b2, "OBL:C01.codegen.get_block.one_block_per_label");
        g.arm_jump(&LabelRef(6));
        assert!(g.builder.n_terms == 1 && g.builder.target() == Some(b2), "OBL:C01.codegen.jump.goes_to_the_block_of_the_label");
        kani::cover!(true, "COV:C01.codegen.jump_reached");
    }

    #[kani::proof]
    #[kani::unwind(6)]
    fn canary_c01_u4_switch() {
        let v: u64 = kani::any();
        let mut m = new_module();
        let (mut g, _na, _nb) = setup_eval(&mut m, I8, v, 0, true);
        let branches = vec![(1usize, LabelRef(10))];
        g.arm_switch(&place(0), &branches, &LabelRef(20));
        assert!(g.builder.target() == g.block_map.get(&LabelRef(20)).copied(), "CANARY:C01.codegen.switch.always_default");
    }

    #[kani::proof]
    fn canary_c10_u2_other_arms() {
        let (a, b): (u64, u64) = (kani::any(), kani::any());
        let mut m = new_module();
        let (mut g, _na, _nb) = setup_eval(&mut m, I32, a, b, true);
        g.arm_div(&var(2), &false, &place(0), &place(1));
        assert!(!g.builder.trapped, "CANARY:C10.codegen.other_arms.no_trapping_opcode");
    }

    #[kani::proof]
    fn canary_c01_u4_opcode() {
        let (a, b): (u64, u64) = (kani::any(), kani::any());
        let mut m = new_module();
        let (mut g, na, nb) = setup(&mut m, I32, a, b);
        g.arm_sub(&var(2), &place(0), &place(1));
        let o = outcome(&g);
        assert!(o.node.kind != Kind::Bin(Opcode::Isub, na, nb), "CANARY:C01.codegen.addsubmul.opcode_and_operand_order");
    }
}
