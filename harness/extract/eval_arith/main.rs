// K-ex unit `eval_arith` — assembled on every run by /verif/check.
// Text that replaced a fragment marker is verbatim source of /repo (see unit.toml / evidence).
#![allow(dead_code, unused_imports, unused_variables, unused_mut, non_upper_case_globals, non_snake_case)]

pub mod ast {
    #[derive(Clone, Copy, Debug, PartialEq, Eq, PartialOrd, Ord, Hash)]
    pub struct Identifier(pub u32);
}
pub mod typechecker {
    pub mod scope {
        #[derive(Clone, Copy, Debug, PartialEq, Eq, PartialOrd, Ord, Hash)]
        pub struct ScopeRef(pub usize);
    }
}

pub mod sem {
    include!("cranelift_sem.rs");
}

/// array-backed stand-in for std::collections::HashMap (capacity 4)
pub mod shim {
    pub struct HashMap<K, V> {
        pub items: [Option<(K, V)>; 4],
    }
    impl<K: PartialEq, V> HashMap<K, V> {
        pub fn new() -> Self {
            HashMap { items: [None, None, None, None] }
        }
        fn find(&self, k: &K) -> Option<usize> {
            let mut i = 0;
            while i < 4 {
                if let Some((kk, _)) = &self.items[i] {
                    if *kk == *k {
                        return Some(i);
                    }
                }
                i += 1;
            }
            None
        }
        pub fn get(&self, k: &K) -> Option<&V> {
            match self.find(k) {
                Some(i) => self.items[i].as_ref().map(|kv| &kv.1),
                None => None,
            }
        }
        pub fn insert(&mut self, k: K, v: V) -> Option<V> {
            if let Some(i) = self.find(&k) {
                let old = self.items[i].take();
                self.items[i] = Some((k, v));
                return old.map(|kv| kv.1);
            }
            let mut i = 0;
            while i < 4 {
                if self.items[i].is_none() {
                    self.items[i] = Some((k, v));
                    return None;
                }
                i += 1;
            }
            panic!("shim: map full");
        }
        pub fn len(&self) -> usize {
            let mut n = 0;
            let mut i = 0;
            while i < 4 {
                if self.items[i].is_some() {
                    n += 1;
                }
                i += 1;
            }
            n
        }
    }
    impl<K, V> core::fmt::Debug for HashMap<K, V> {
        fn fmt(&self, f: &mut core::fmt::Formatter<'_>) -> core::fmt::Result {
            f.write_str("HashMap")
        }
    }
}

pub mod lir {
    use crate::{ast::Identifier, typechecker::scope::ScopeRef};
    pub use value::{IrType, IrValue};

    // the real file
    #[path = "/repo/src/lir/value.rs"]
    pub mod value;

    /*@STRUCT_VAR@*/

    /*@ENUM_VARKIND@*/

    /*@ENUM_OPERAND@*/

    /*@ENUM_INTCMP@*/

    /*@ENUM_FLOATCMP@*/

    pub mod eval {
        use crate::lir::{value::IrType, value::IrValue, FloatCmp, IntCmp, Operand, Var, VarKind};
        use crate::shim::HashMap;

        // arms of `eval` (bodies verbatim)
        /*@ARM_NOT@*/
        /*@ARM_NEGATE@*/
        /*@ARM_ADD@*/
        /*@ARM_SUB@*/
        /*@ARM_MUL@*/
        /*@ARM_DIV@*/
        /*@ARM_FDIV@*/
        /*@ARM_MOD@*/
        /*@ARM_INTCMP@*/
        /*@ARM_FLOATCMP@*/
        /*@ARM_ASSIGN@*/
        /*@ARM_WRITE@*/
        /*@ARM_READ@*/
        /*@ARM_OFFSET@*/
        /*@ARM_COPY@*/

        /// recording stand-in for eval::Memory (the real one is C20-U3): what the arm asked of it
        #[derive(Clone, Copy, Debug, PartialEq, Eq)]
        pub enum MemOp {
            OffsetBy { p: usize, offset: usize, result: usize },
            Write { p: usize, bytes: [u8; 8], len: usize },
            Read { p: usize, size: usize },
            Copy { to: usize, from: usize, size: usize },
        }
        pub struct Memory {
            pub op: Option<MemOp>,
            pub n_ops: usize,
            /// content handed out by read_slice
            pub data: [u8; 8],
        }
        impl Memory {
            fn record(&mut self, op: MemOp) {
                self.op = Some(op);
                self.n_ops += 1;
            }
            pub fn offset_by(&mut self, p: usize, offset: usize) -> usize {
                let result = p.wrapping_mul(31).wrapping_add(offset).wrapping_add(7);
                self.record(MemOp::OffsetBy { p, offset, result });
                result
            }
            pub fn write(&mut self, p: usize, val: &[u8]) {
                let mut bytes = [0u8; 8];
                let mut i = 0;
                while i < 8 && i < val.len() {
                    bytes[i] = val[i];
                    i += 1;
                }
                self.record(MemOp::Write { p, bytes, len: val.len() });
            }
            pub fn read_slice(&mut self, p: usize, size: usize) -> &[u8] {
                self.record(MemOp::Read { p, size });
                &self.data[..size]
            }
            pub fn copy(&mut self, to: usize, from: usize, size: usize) {
                self.record(MemOp::Copy { to, from, size });
            }
        }

        /*@FN_EVAL_OPERAND@*/

        include!("harness.rs");
    }
}

fn main() {}
