// Contracts for the scalar arms of the IR evaluator (C20-U1).
// Postcondition, from the property statement: "computes the same result as the JIT-compiled
// code for the same arguments ... or stops with a panic. It never completes with a different value."
// "Same result as the compiled code" = the Cranelift reference semantics in cranelift_sem.rs, the
// definition the code generator unit (C01-U4) is proved against.
mod h {
    use super::*;
    use crate::sem::*;
    use crate::typechecker::scope::ScopeRef;

    fn var(i: usize) -> Var {
        Var { scope: ScopeRef(0), kind: VarKind::Tmp(i) }
    }
    fn place(i: usize) -> Operand {
        Operand::Place(var(i))
    }
    fn vars2(a: IrValue, b: IrValue) -> HashMap<Var, IrValue> {
        let mut m = HashMap::new();
        m.insert(var(0), a);
        m.insert(var(1), b);
        m
    }
    /// frame: the operands are still there and unchanged, exactly one new binding (tmp2)
    fn frame_ok(m: &HashMap<Var, IrValue>, a: &IrValue, b: &IrValue) -> bool {
        m.len() == 3 && same(m.get(&var(0)).unwrap(), a) && same(m.get(&var(1)).unwrap(), b)
    }
    /// structural equality that never panics (IrValue::eq does for some variants)
    fn same(x: &IrValue, y: &IrValue) -> bool {
        use IrValue::*;
        match (x, y) {
            (Bool(l), Bool(r)) => l == r,
            (U8(l), U8(r)) => l == r,
            (U16(l), U16(r)) => l == r,
            (U32(l), U32(r)) => l == r,
            (U64(l), U64(r)) => l == r,
            (I8(l), I8(r)) => l == r,
            (I16(l), I16(r)) => l == r,
            (I32(l), I32(r)) => l == r,
            (I64(l), I64(r)) => l == r,
            (F32(l), F32(r)) => l.to_bits() == r.to_bits(),
            (F64(l), F64(r)) => l.to_bits() == r.to_bits(),
            (Char(l), Char(r)) => l == r,
            (Asn(l), Asn(r)) => l.into_u32() == r.into_u32(),
            (Pointer(l), Pointer(r)) => l == r,
            _ => false,
        }
    }

    macro_rules! int_arms {
        ($arith:ident, $divmod:ident, $neg:ident, $cmp:ident, $canary:ident, $loud:ident, $V:ident, $t:ty, $u:ty, $sem:ident, $signed:expr) => {
            /// Add/Sub on two operands of this variant: the stored value is the machine result
            /// (iadd/isub at this width), variant preserved, nothing else touched.
            #[kani::proof]
            fn $arith() {
                let (l, r): ($t, $t) = (kani::any(), kani::any());
                let is_add: bool = kani::any();
                // non-overflowing operands (see unit.toml `assumed` for the overflowing case)
                kani::assume(if is_add { l.checked_add(r).is_some() } else { l.checked_sub(r).is_some() });
                let (a, b) = (IrValue::$V(l), IrValue::$V(r));
                let mut m = vars2(a.clone(), b.clone());
                if is_add {
                    arm_add(&mut m, &var(2), &place(0), &place(1));
                } else {
                    arm_sub(&mut m, &var(2), &place(0), &place(1));
                }
                let mut trap = false;
                let opc = if is_add { Opcode::Iadd } else { Opcode::Isub };
                let want = $sem(opc, l as $u, r as $u, &mut trap) as $t;
                assert!(same(m.get(&var(2)).unwrap(), &IrValue::$V(want)), "OBL:C20.eval.addsub.equals_machine_result");
                assert!(frame_ok(&m, &a, &b), "OBL:C20.eval.addsub.frame");
                kani::cover!(!is_add && want != 0, "COV:C20.eval.sub_reached");
            }

            /// Mul on two operands of this variant: the machine's imul for non-overflowing operands.
            #[kani::proof]
            fn $neg() {
                let (l, r): ($t, $t) = (kani::any(), kani::any());
                kani::assume(l.checked_mul(r).is_some());
                let (a, b) = (IrValue::$V(l), IrValue::$V(r));
                let mut m = vars2(a.clone(), b.clone());
                arm_mul(&mut m, &var(2), &place(0), &place(1));
                let mut trap = false;
                let want = $sem(Opcode::Imul, l as $u, r as $u, &mut trap) as $t;
                assert!(same(m.get(&var(2)).unwrap(), &IrValue::$V(want)), "OBL:C20.eval.mul.equals_machine_result");
                assert!(frame_ok(&m, &a, &b), "OBL:C20.eval.mul.frame");
                kani::cover!(want > 1, "COV:C20.eval.mul_reached");
            }

            /// Div/Mod: for operands on which the machine instruction does not trap the stored
            /// value is the machine result, provided the instruction's `signed` flag matches the
            /// operand variant (what lowering guarantees, C01-U5).
            #[kani::proof]
            fn $divmod() {
                let (l, r): ($t, $t) = (kani::any(), kani::any());
                let is_div: bool = kani::any();
                kani::assume(r != 0);
                kani::assume(l.checked_div(r).is_some());
                let (a, b) = (IrValue::$V(l), IrValue::$V(r));
                let mut m = vars2(a.clone(), b.clone());
                if is_div {
                    arm_div(&mut m, &var(2), &place(0), &place(1));
                } else {
                    arm_mod(&mut m, &var(2), &place(0), &place(1));
                }
                let mut trap = false;
                let opc = match (is_div, $signed) {
                    (true, true) => Opcode::Sdiv,
                    (true, false) => Opcode::Udiv,
                    (false, true) => Opcode::Srem,
                    (false, false) => Opcode::Urem,
                };
                let want = $sem(opc, l as $u, r as $u, &mut trap) as $t;
                assert!(!trap && same(m.get(&var(2)).unwrap(), &IrValue::$V(want)), "OBL:C20.eval.divmod.equals_machine_result");
                assert!(frame_ok(&m, &a, &b), "OBL:C20.eval.divmod.frame");
                kani::cover!(!is_div && want != 0, "COV:C20.eval.rem_reached");
            }

            /// IntCmp on two operands of this variant, for the condition codes lowering emits for
            /// it (Eq/Ne + the four of its signedness): Bool(machine icmp), or a panic.
            #[kani::proof]
            fn $cmp() {
                let (l, r): ($t, $t) = (kani::any(), kani::any());
                let k: u8 = kani::any();
                kani::assume(k >= 2 && k < 6);
                let (a, b) = (IrValue::$V(l), IrValue::$V(r));
                let mut m = vars2(a.clone(), b.clone());
                let (cmp, want) = match (k, $signed) {
                    (2, false) => (IntCmp::ULt, (l as $u) < (r as $u)),
                    (3, false) => (IntCmp::ULe, (l as $u) <= (r as $u)),
                    (4, false) => (IntCmp::UGt, (l as $u) > (r as $u)),
                    (5, false) => (IntCmp::UGe, (l as $u) >= (r as $u)),
                    (2, true) => (IntCmp::SLt, l < r),
                    (3, true) => (IntCmp::SLe, l <= r),
                    (4, true) => (IntCmp::SGt, l > r),
                    _ => (IntCmp::SGe, l >= r),
                };
                arm_intcmp(&mut m, &var(2), &cmp, &place(0), &place(1));
                assert!(same(m.get(&var(2)).unwrap(), &IrValue::Bool(want)), "OBL:C20.eval.intcmp.equals_machine_icmp");
                assert!(frame_ok(&m, &a, &b), "OBL:C20.eval.intcmp.frame");
                kani::cover!(want, "COV:C20.eval.intcmp_true_reached");
            }

            #[kani::proof]
            fn $canary() {
                let (l, r): ($t, $t) = (kani::any(), kani::any());
                kani::assume(l.checked_sub(r).is_some());
                let mut m = vars2(IrValue::$V(l), IrValue::$V(r));
                arm_sub(&mut m, &var(2), &place(0), &place(1));
                assert!(!same(m.get(&var(2)).unwrap(), &IrValue::$V(l.wrapping_sub(r))), "CANARY:C20.eval.addsub.equals_machine_result");
            }

            /// loud: a zero divisor, MIN / -1 and MIN % -1 (where the machine traps or wraps) never
            /// complete - the evaluator panics.  Expected verdict: FAILED inside the arm, and the
            /// obligation after the call never reached.
            #[kani::proof]
            fn $loud() {
                let (l, r): ($t, $t) = (kani::any(), kani::any());
                kani::assume(r == 0 || l.checked_div(r).is_none());
                let is_div: bool = kani::any();
                let mut m = vars2(IrValue::$V(l), IrValue::$V(r));
                if is_div {
                    arm_div(&mut m, &var(2), &place(0), &place(1));
                } else {
                    arm_mod(&mut m, &var(2), &place(0), &place(1));
                }
                assert!(false, "OBL:C20.eval.divmod.trapping_operands_must_not_complete");
            }
        };
    }

    int_arms!(c20_u1_addsub_u8, c20_u1_divmod_u8, c20_u1_mul_u8, c20_u1_cmp_u8, canary_c20_u1_u8, loud_c20_u1_divmod_u8, U8, u8, u8, sem_i8, false);
    int_arms!(c20_u1_addsub_i8, c20_u1_divmod_i8, c20_u1_mul_i8, c20_u1_cmp_i8, canary_c20_u1_i8, loud_c20_u1_divmod_i8, I8, i8, u8, sem_i8, true);
    int_arms!(c20_u1_addsub_u16, c20_u1_divmod_u16, c20_u1_mul_u16, c20_u1_cmp_u16, canary_c20_u1_u16, loud_c20_u1_divmod_u16, U16, u16, u16, sem_i16, false);
    int_arms!(c20_u1_addsub_i16, c20_u1_divmod_i16, c20_u1_mul_i16, c20_u1_cmp_i16, canary_c20_u1_i16, loud_c20_u1_divmod_i16, I16, i16, u16, sem_i16, true);
    int_arms!(c20_u1_addsub_u32, c20_u1_divmod_u32, c20_u1_mul_u32, c20_u1_cmp_u32, canary_c20_u1_u32, loud_c20_u1_divmod_u32, U32, u32, u32, sem_i32, false);
    int_arms!(c20_u1_addsub_i32, c20_u1_divmod_i32, c20_u1_mul_i32, c20_u1_cmp_i32, canary_c20_u1_i32, loud_c20_u1_divmod_i32, I32, i32, u32, sem_i32, true);
    int_arms!(c20_u1_addsub_u64, c20_u1_divmod_u64, c20_u1_mul_u64, c20_u1_cmp_u64, canary_c20_u1_u64, loud_c20_u1_divmod_u64, U64, u64, u64, sem_i64, false);
    int_arms!(c20_u1_addsub_i64, c20_u1_divmod_i64, c20_u1_mul_i64, c20_u1_cmp_i64, canary_c20_u1_i64, loud_c20_u1_divmod_i64, I64, i64, u64, sem_i64, true);

    macro_rules! neg_arm {
        ($name:ident, $V:ident, $t:ty) => {
            /// Negate on a signed integer: the machine's ineg (wrapping) result for non-overflowing operands.
            #[kani::proof]
            fn $name() {
                let x: $t = kani::any();
                kani::assume(x != <$t>::MIN);
                let a = IrValue::$V(x);
                let mut m = vars2(a.clone(), IrValue::Bool(false));
                arm_negate(&mut m, &var(2), &place(0));
                assert!(same(m.get(&var(2)).unwrap(), &IrValue::$V((0 as $t).wrapping_sub(x))), "OBL:C20.eval.negate.equals_machine_ineg");
                assert!(frame_ok(&m, &a, &IrValue::Bool(false)), "OBL:C20.eval.negate.frame");
                kani::cover!(x > 0, "COV:C20.eval.negate_positive_reached");
            }
        };
    }
    neg_arm!(c20_u1_negate_i8, I8, i8);
    neg_arm!(c20_u1_negate_i16, I16, i16);
    neg_arm!(c20_u1_negate_i32, I32, i32);
    neg_arm!(c20_u1_negate_i64, I64, i64);

    /// Not: the compiled code computes `icmp_imm eq val, 0`, i.e. the other boolean.
    #[kani::proof]
    fn c20_u1_not() {
        let x: bool = kani::any();
        let a = IrValue::Bool(x);
        let mut m = vars2(a.clone(), IrValue::Bool(false));
        arm_not(&mut m, &var(2), &place(0));
        assert!(same(m.get(&var(2)).unwrap(), &IrValue::Bool(!x)), "OBL:C20.eval.not.equals_machine_result");
        assert!(frame_ok(&m, &a, &IrValue::Bool(false)), "OBL:C20.eval.not.frame");
        kani::cover!(x, "COV:C20.eval.not_true_reached");
    }

    #[kani::proof]
    fn canary_c20_u1_not() {
        let x: bool = kani::any();
        let mut m = vars2(IrValue::Bool(x), IrValue::Bool(false));
        arm_not(&mut m, &var(2), &place(0));
        assert!(!same(m.get(&var(2)).unwrap(), &IrValue::Bool(!x)) && !same(m.get(&var(2)).unwrap(), &IrValue::Bool(x)), "CANARY:C20.eval.not.some_bool_is_stored");
    }

    /// Assign stores exactly the operand's value (any scalar variant).
    #[kani::proof]
    fn c20_u1_assign() {
        let k: u8 = kani::any();
        kani::assume(k < 6);
        let a = match k {
            0 => IrValue::Bool(kani::any()),
            1 => IrValue::U8(kani::any()),
            2 => IrValue::I32(kani::any()),
            3 => IrValue::U64(kani::any()),
            4 => IrValue::Char(kani::any()),
            _ => IrValue::Pointer(kani::any()),
        };
        let mut m = vars2(a.clone(), IrValue::Bool(false));
        arm_assign(&mut m, &var(2), &place(0));
        assert!(same(m.get(&var(2)).unwrap(), &a), "OBL:C20.eval.assign.copies_operand");
        assert!(frame_ok(&m, &a, &IrValue::Bool(false)), "OBL:C20.eval.assign.frame");
        kani::cover!(k == 4, "COV:C20.eval.assign_char_reached");
    }

    /// Eq/Ne on same-variant 8/16/32-bit integers (the variants IrValue::eq supports): machine icmp eq/ne.
    #[kani::proof]
    fn c20_u1_eq_ne_small_ints() {
        let k: u8 = kani::any();
        kani::assume(k < 3);
        let ne: bool = kani::any();
        let (a, b, equal) = match k {
            0 => {
                let (l, r): (u8, u8) = (kani::any(), kani::any());
                (IrValue::U8(l), IrValue::U8(r), l == r)
            }
            1 => {
                let (l, r): (i16, i16) = (kani::any(), kani::any());
                (IrValue::I16(l), IrValue::I16(r), l == r)
            }
            _ => {
                let (l, r): (u32, u32) = (kani::any(), kani::any());
                (IrValue::U32(l), IrValue::U32(r), l == r)
            }
        };
        let mut m = vars2(a.clone(), b.clone());
        let cmp = if ne { IntCmp::Ne } else { IntCmp::Eq };
        arm_intcmp(&mut m, &var(2), &cmp, &place(0), &place(1));
        assert!(same(m.get(&var(2)).unwrap(), &IrValue::Bool(equal != ne)), "OBL:C20.eval.intcmp.eq_ne_equals_machine_icmp");
        kani::cover!(equal && ne, "COV:C20.eval.ne_on_equal_reached");
    }

    /// FloatCmp, ordering codes: the machine's ordered fcmp (false when an operand is NaN).
    macro_rules! floatcmp_order {
        ($name:ident, $V:ident, $t:ty) => {
            #[kani::proof]
            fn $name() {
                let (l, r): ($t, $t) = (kani::any(), kani::any());
                let k: u8 = kani::any();
                kani::assume(k < 4);
                let (cmp, want) = match k {
                    0 => (FloatCmp::Lt, l < r),
                    1 => (FloatCmp::Le, l <= r),
                    2 => (FloatCmp::Gt, l > r),
                    _ => (FloatCmp::Ge, l >= r),
                };
                let (a, b) = (IrValue::$V(l), IrValue::$V(r));
                let mut m = vars2(a.clone(), b.clone());
                arm_floatcmp(&mut m, &var(2), &cmp, &place(0), &place(1));
                assert!(same(m.get(&var(2)).unwrap(), &IrValue::Bool(want)), "OBL:C20.eval.floatcmp.ordering_equals_machine_fcmp");
                assert!(m.len() == 3, "OBL:C20.eval.floatcmp.frame");
                kani::cover!(want, "COV:C20.eval.floatcmp_true_reached");
                kani::cover!(l.is_nan() && !want, "COV:C20.eval.floatcmp_nan_reached");
            }
        };
    }
    floatcmp_order!(c20_u1_floatcmp_order_f32, F32, f32);
    floatcmp_order!(c20_u1_floatcmp_order_f64, F64, f64);

    /// FloatCmp Eq / Ne: the evaluator either stops loudly (the pinned IrValue::eq has no float arm)
    /// or completes with the machine's fcmp eq / ne: IEEE equality (0.0 == -0.0, NaN != NaN).
    macro_rules! floatcmp_eq {
        ($name:ident, $V:ident, $t:ty) => {
            #[kani::proof]
            fn $name() {
                let (l, r): ($t, $t) = (kani::any(), kani::any());
                let ne: bool = kani::any();
                let mut m = vars2(IrValue::$V(l), IrValue::$V(r));
                let cmp = if ne { FloatCmp::Ne } else { FloatCmp::Eq };
                arm_floatcmp(&mut m, &var(2), &cmp, &place(0), &place(1));
                assert!(same(m.get(&var(2)).unwrap(), &IrValue::Bool((l == r) != ne)), "OBL:C20.eval.floatcmp.eq_ne_completes_only_with_the_machine_result");
            }
        };
    }
    floatcmp_eq!(agree_or_loud_c20_u1_floatcmp_eq_f32, F32, f32);
    floatcmp_eq!(agree_or_loud_c20_u1_floatcmp_eq_f64, F64, f64);

    /// loud: operands of different variants never complete (Add shown; same dispatch shape in all arms).
    #[kani::proof]
    fn loud_c20_u1_mixed_variants() {
        let (l, r): (u8, i8) = (kani::any(), kani::any());
        let op: u8 = kani::any();
        kani::assume(op < 5);
        let mut m = vars2(IrValue::U8(l), IrValue::I8(r));
        match op {
            0 => arm_add(&mut m, &var(2), &place(0), &place(1)),
            1 => arm_sub(&mut m, &var(2), &place(0), &place(1)),
            2 => arm_mul(&mut m, &var(2), &place(0), &place(1)),
            3 => arm_div(&mut m, &var(2), &place(0), &place(1)),
            _ => arm_mod(&mut m, &var(2), &place(0), &place(1)),
        };
        assert!(false, "OBL:C20.eval.mixed_variants_must_not_complete");
    }

    /// loud: integer arithmetic arms on floats never complete (the JIT would emit fadd etc.;
    /// the evaluator has no float Add/Sub/Mul and must stop rather than invent a value).
    #[kani::proof]
    fn loud_c20_u1_float_addsubmul() {
        let (l, r): (f64, f64) = (kani::any(), kani::any());
        let op: u8 = kani::any();
        kani::assume(op < 3);
        let mut m = vars2(IrValue::F64(l), IrValue::F64(r));
        match op {
            0 => arm_add(&mut m, &var(2), &place(0), &place(1)),
            1 => arm_sub(&mut m, &var(2), &place(0), &place(1)),
            _ => arm_mul(&mut m, &var(2), &place(0), &place(1)),
        };
        assert!(false, "OBL:C20.eval.float_addsubmul_must_not_complete");
    }

    /// loud: Not on a non-bool never completes.
    #[kani::proof]
    fn loud_c20_u1_not_nonbool() {
        let x: u8 = kani::any();
        let mut m = vars2(IrValue::U8(x), IrValue::Bool(false));
        arm_not(&mut m, &var(2), &place(0));
        assert!(false, "OBL:C20.eval.not_on_nonbool_must_not_complete");
    }

    // ----------------------------------------------------------------- memory arms
    /// C20 ("same result as compiled code"): the evaluator's Write / Read / Offset / Copy arms ask the
    /// memory for exactly what the compiled instruction does (C02-K5): store the little-endian bytes
    /// of the value, as many as its type is wide, at the pointer; read exactly the width of the type;
    /// base + offset; copy exactly `size` bytes.
    fn mem0() -> Memory {
        Memory { op: None, n_ops: 0, data: kani::any() }
    }
    fn any_scalar() -> (IrValue, [u8; 8], usize) {
        let k: u8 = kani::any();
        kani::assume(k < 6);
        let x: u64 = kani::any();
        let b = x.to_le_bytes();
        match k {
            0 => (IrValue::U8(x as u8), b, 1),
            1 => (IrValue::I16(x as i16), b, 2),
            2 => (IrValue::U32(x as u32), b, 4),
            3 => (IrValue::I64(x as i64), b, 8),
            4 => (IrValue::F32(f32::from_bits(x as u32)), b, 4),
            _ => (IrValue::Bool(x & 1 == 1), [(x & 1) as u8, 0, 0, 0, 0, 0, 0, 0], 1),
        }
    }

    #[kani::proof]
    #[kani::unwind(10)]
    fn c20_u4_write_stores_the_bytes_of_the_value() {
        let (v, bytes, len) = any_scalar();
        let p: usize = kani::any();
        let mut m = vars2(IrValue::Pointer(p), v);
        let mut mem = mem0();
        arm_write(&mut m, &mut mem, &place(0), &place(1));
        let mut want = [0u8; 8];
        let mut i = 0;
        while i < len {
            want[i] = bytes[i];
            i += 1;
        }
        assert!(mem.n_ops == 1 && mem.op == Some(MemOp::Write { p, bytes: want, len }), "OBL:C20.eval.write.stores_the_little_endian_bytes_of_the_value_at_the_pointer");
        assert!(m.len() == 2, "OBL:C20.eval.write.frame");
        kani::cover!(len == 2, "COV:C20.eval.write_i16_reached");
    }

    #[kani::proof]
    #[kani::unwind(10)]
    fn c20_u4_read_reads_the_width_of_the_type() {
        let k: u8 = kani::any();
        kani::assume(k < 4);
        let (ty, size) = match k {
            0 => (IrType::U8, 1),
            1 => (IrType::I16, 2),
            2 => (IrType::U32, 4),
            _ => (IrType::I64, 8),
        };
        let p: usize = kani::any();
        let mut m = vars2(IrValue::Pointer(p), IrValue::U8(0));
        let mut mem = mem0();
        let d = mem.data;
        arm_read(&mut m, &mut mem, &var(2), &place(0), &ty);
        assert!(mem.n_ops == 1 && mem.op == Some(MemOp::Read { p, size }), "OBL:C20.eval.read.reads_exactly_the_width_of_the_type_at_the_pointer");
        let want = match k {
            0 => IrValue::U8(d[0]),
            1 => IrValue::I16(i16::from_le_bytes([d[0], d[1]])),
            2 => IrValue::U32(u32::from_le_bytes([d[0], d[1], d[2], d[3]])),
            _ => IrValue::I64(i64::from_le_bytes(d)),
        };
        assert!(same(m.get(&var(2)).unwrap(), &want) && m.len() == 3, "OBL:C20.eval.read.binds_the_little_endian_value_of_those_bytes");
        kani::cover!(k == 2, "COV:C20.eval.read_u32_reached");
    }

    #[kani::proof]
    #[kani::unwind(10)]
    fn c20_u4_offset_and_copy() {
        let (p, q): (usize, usize) = (kani::any(), kani::any());
        let off: u32 = kani::any();
        let mut m = vars2(IrValue::Pointer(p), IrValue::Pointer(q));
        let mut mem = mem0();
        arm_offset(&mut m, &mut mem, &var(2), &place(0), &off);
        let ok = match mem.op {
            Some(MemOp::OffsetBy { p: pp, offset, result }) => pp == p && offset == off as usize && same(m.get(&var(2)).unwrap(), &IrValue::Pointer(result)),
            _ => false,
        };
        assert!(mem.n_ops == 1 && ok && m.len() == 3, "OBL:C20.eval.offset.is_the_pointer_offset_by_exactly_the_offset");
        let size: u32 = kani::any();
        let mut m = vars2(IrValue::Pointer(p), IrValue::Pointer(q));
        let mut mem = mem0();
        arm_copy(&mut m, &mut mem, &place(0), &place(1), &size);
        assert!(mem.n_ops == 1 && mem.op == Some(MemOp::Copy { to: p, from: q, size: size as usize }) && m.len() == 2, "OBL:C20.eval.copy.copies_exactly_size_bytes_from_source_to_destination");
        kani::cover!(size == 3, "COV:C20.eval.copy_three_bytes_reached");
    }

    #[kani::proof]
    #[kani::unwind(10)]
    fn canary_c20_u4_memory() {
        let (p, q): (usize, usize) = (kani::any(), kani::any());
        let size: u32 = kani::any();
        let mut m = vars2(IrValue::Pointer(p), IrValue::Pointer(q));
        let mut mem = mem0();
        arm_copy(&mut m, &mut mem, &place(0), &place(1), &size);
        assert!(mem.op != Some(MemOp::Copy { to: p, from: q, size: size as usize }), "CANARY:C20.eval.copy_wrong");
    }
}
