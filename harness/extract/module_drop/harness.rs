// Contract (C11): "machine code, script constants, registered constants and state captured by
// registered closures are released exactly once, after the last handle or package referring to
// them is gone and not before"; script constants are dropped (drop function, then deallocation)
// BEFORE the machine code that contains their drop function is freed.
mod h {
    use super::*;
    use crate::log::*;
    use crate::shim::Closure;

    unsafe extern "C" fn const_drop(_p: *mut ()) {
        event(CONST_DROP_FN);
    }

    fn count(e: u8) -> usize {
        unsafe { COUNT[e as usize] as usize }
    }

    fn handle(m: &Module<NoCtx>) -> TypedFunc<(), fn()> {
        // the tail of Module::get_function (C04-U3): a handle shares `self.inner`
        TypedFunc { func: core::ptr::null(), return_by_ref: false, _module: m.inner.clone(), _ty: PhantomData }
    }
    /// the package as the compiler produces it: ModuleBuilder::finalize (verbatim)
    fn compile(roto_constants: HashMap<ResolvedName, RotoConstant>, constants: HashMap<ResolvedName, ConstantValue>, fns: Vec<Arc<Box<dyn Any>>>) -> Module<NoCtx> {
        let b = ModuleBuilder { functions: HashMap { vals: [None, None], _k: PhantomData }, inner: JITModule, runtime_constants: constants, roto_constants, registered_fns: fns, type_info: TypeInfo };
        b.finalize::<NoCtx>()
    }

    /// a package with 2 script constants, 1 registered constant, 1 registered closure; the package
    /// and two handles (one a clone of the other) dropped in every order.
    macro_rules! destruction_order {
        ($name:ident, $perm:expr) => {
    #[kani::proof]
    #[kani::unwind(5)]
    fn $name() {
        reset();
        let roto_constants = HashMap { vals: [Some(RotoConstant::new(8, 8, const_drop)), Some(RotoConstant::new(24, 8, const_drop))], _k: PhantomData };
        let constants = HashMap { vals: [Some(ConstantValue), None], _k: PhantomData };
        let fns: Vec<Arc<Box<dyn Any>>> = vec![Arc::new(Box::new(Closure) as Box<dyn Any>)];
        let package = compile(roto_constants, constants, fns);
        let h1 = handle(&package);
        let h2 = h1.clone();
        let mut owners: [Option<Owner>; 3] = [Some(Owner::Package(package)), Some(Owner::Handle(h1)), Some(Owner::Handle(h2))];
        let perm: [usize; 3] = $perm;
        let mut step = 0;
        while step < 3 {
            assert!(count(FREE_MEMORY) == 0 && count(CONST_DROP_FN) == 0, "OBL:C11.drop.nothing_is_released_while_an_owner_is_alive");
            assert!(count(REGISTERED_FN) == 0 && count(RUNTIME_CONST) == 0, "OBL:C11.drop.closure_state_and_registered_constants_live_as_long_as_any_owner");
            drop(owners[perm[step]].take());
            step += 1;
        }
        assert!(count(FREE_MEMORY) == 1, "OBL:C11.drop.machine_code_freed_exactly_once_after_last_owner");
        assert!(count(CONST_DROP_FN) == 2, "OBL:C11.drop.every_script_constant_dropped_exactly_once");
        assert!(count(RUNTIME_CONST) == 1 && count(REGISTERED_FN) == 1, "OBL:C11.drop.registered_constants_and_closures_released_exactly_once");
        assert!(unsafe { CONST_DROPS_AT_FREE } == 2, "OBL:C11.drop.script_constants_dropped_before_their_drop_code_is_freed");
        kani::cover!(true, "COV:C11.drop.order_reached");
    }
        };
    }
    destruction_order!(c11_u1_destruction_order_012, [0, 1, 2]);
    destruction_order!(c11_u1_destruction_order_021, [0, 2, 1]);
    destruction_order!(c11_u1_destruction_order_102, [1, 0, 2]);
    destruction_order!(c11_u1_destruction_order_120, [1, 2, 0]);
    destruction_order!(c11_u1_destruction_order_201, [2, 0, 1]);
    destruction_order!(c11_u1_destruction_order_210, [2, 1, 0]);


    /// the pinned code calls std::alloc::alloc / dealloc with a zero-size layout for a constant of a
    /// zero-sized type (formally outside GlobalAlloc's contract; the system allocator returns a
    /// pointer). That is not what C11 is about, so the allocator calls are modelled as: size 0 ->
    /// dangling aligned pointer / no-op.
    unsafe fn alloc_model(layout: Layout) -> *mut u8 {
        if layout.size() == 0 {
            layout.align() as *mut u8
        } else {
            unsafe { std::alloc::alloc_zeroed(layout) }
        }
    }
    unsafe fn dealloc_model(ptr: *mut u8, layout: Layout) {
        if layout.size() != 0 {
            unsafe { std::alloc::dealloc(ptr, layout) }
        }
    }

    /// a script constant of a zero-sized type is still dropped exactly once (its drop function runs)
    #[kani::proof]
    #[kani::unwind(5)]
    #[kani::stub(std::alloc::alloc, alloc_model)]
    #[kani::stub(std::alloc::dealloc, dealloc_model)]
    fn c11_u1_zero_sized_constant() {
        reset();
        let roto_constants = HashMap { vals: [Some(RotoConstant::new(0, 1, const_drop)), None], _k: PhantomData };
        let constants = HashMap { vals: [None, None], _k: PhantomData };
        let package = compile(roto_constants, constants, Vec::new());
        let h1 = handle(&package);
        drop(package);
        assert!(count(CONST_DROP_FN) == 0 && count(FREE_MEMORY) == 0, "OBL:C11.drop.zero_sized_constant_kept_while_a_handle_lives");
        drop(h1);
        assert!(count(CONST_DROP_FN) == 1, "OBL:C11.drop.zero_sized_constant_dropped_exactly_once");
        assert!(count(FREE_MEMORY) == 1 && unsafe { CONST_DROPS_AT_FREE } == 1, "OBL:C11.drop.zero_sized_constant_dropped_before_machine_code_is_freed");
        kani::cover!(true, "COV:C11.drop.zero_sized_reached");
    }

    enum Owner {
        Package(Module<NoCtx>),
        Handle(TypedFunc<(), fn()>),
    }

    #[kani::proof]
    #[kani::unwind(5)]
    fn canary_c11_u1_destruction_order() {
        reset();
        let roto_constants = HashMap { vals: [Some(RotoConstant::new(8, 8, const_drop)), None], _k: PhantomData };
        let constants = HashMap { vals: [None, None], _k: PhantomData };
        let package = compile(roto_constants, constants, Vec::new());
        let h1 = handle(&package);
        drop(package);
        drop(h1);
        assert!(count(FREE_MEMORY) == 0, "CANARY:C11.drop.machine_code_never_freed");
    }
}
