// K-ex unit `module_drop` — assembled on every run by /verif/check.
// Text that replaced a fragment marker is verbatim source of /repo/src/codegen/mod.rs.
#![allow(dead_code, unused_imports, unused_variables, unused_mut)]

/// event counters written by the shims
pub mod log {
    pub const CONST_DROP_FN: u8 = 1;
    pub const RUNTIME_CONST: u8 = 2;
    pub const REGISTERED_FN: u8 = 3;
    pub const FREE_MEMORY: u8 = 4;
    /// how often each event happened
    pub static mut COUNT: [u8; 5] = [0; 5];
    /// number of script-constant drops that had happened when the machine code was freed (first time)
    pub static mut CONST_DROPS_AT_FREE: u8 = 0;
    pub fn event(e: u8) {
        unsafe {
            if e == FREE_MEMORY && COUNT[FREE_MEMORY as usize] == 0 {
                CONST_DROPS_AT_FREE = COUNT[CONST_DROP_FN as usize];
            }
            COUNT[e as usize] += 1;
        }
    }
    pub fn reset() {
        unsafe {
            COUNT = [0; 5];
            CONST_DROPS_AT_FREE = 0;
        }
    }
}

pub mod shim {
    use crate::log::*;
    pub struct JITModule;
    impl JITModule {
        pub unsafe fn free_memory(self) {
            event(FREE_MEMORY);
        }
        pub fn finalize_definitions(&mut self) -> Result<(), ()> {
            Ok(())
        }
    }
    pub struct FunctionInfo;
    pub struct TypeInfo;
    pub trait OptCtx {}
    pub struct NoCtx;
    impl OptCtx for NoCtx {}
    pub struct ConstantValue;
    impl Drop for ConstantValue {
        fn drop(&mut self) {
            event(RUNTIME_CONST);
        }
    }
    pub struct Closure;
    impl Drop for Closure {
        fn drop(&mut self) {
            event(REGISTERED_FN);
        }
    }
    /// owns its values (at most two, inline); stands in for HashMap<ResolvedName, V>
    pub struct HashMap<K, V> {
        pub vals: [Option<V>; 2],
        pub _k: core::marker::PhantomData<K>,
    }
    #[derive(Clone, Copy)]
    pub struct ResolvedName;
    pub type DropFn = unsafe extern "C" fn(*mut ());
}

pub mod codegen {
    use crate::shim::{ConstantValue, DropFn, FunctionInfo, HashMap, JITModule, NoCtx, OptCtx, ResolvedName, TypeInfo};
    use std::{alloc::Layout, any::Any, fmt::Debug, marker::PhantomData, mem::ManuallyDrop, sync::Arc};

    /*@STRUCT_MODULEDATA@*/

    /*@STRUCT_WRAPPER@*/

    /*@IMPL_DROP_WRAPPER@*/

    /*@IMPL_MODULEDATA@*/

    /*@STRUCT_SHARED@*/

    /*@IMPL_SHARED@*/

    /*@STRUCT_ROTOCONSTANT@*/

    /*@IMPL_ROTOCONSTANT@*/

    /*@IMPL_DROP_ROTOCONSTANT@*/

    /*@STRUCT_TYPEDFUNC@*/

    /*@STRUCT_MODULE@*/

    /// stand-in for ModuleBuilder: the fields `finalize` moves into the Module
    pub struct ModuleBuilder {
        pub functions: HashMap<String, FunctionInfo>,
        pub inner: JITModule,
        pub runtime_constants: HashMap<ResolvedName, ConstantValue>,
        pub roto_constants: HashMap<ResolvedName, RotoConstant>,
        pub registered_fns: Vec<Arc<Box<dyn Any>>>,
        pub type_info: TypeInfo,
    }
    impl ModuleBuilder {
        /*@FN_FINALIZE@*/
    }

    include!("harness.rs");
}

fn main() {}
