// Contract (C06 "compiling terminates", C13 "an import in any order"): the import fixpoint
// terminates after at most n+1 rounds, succeeds iff every path becomes importable in some order,
// imports each path at most once, and otherwise returns the error of a path that cannot be imported.
mod h {
    use super::*;
    use crate::parser::meta::{Meta, MetaId};

    /// one concrete import situation (a symbolic one makes Vec::retain over a symbolic closure
    /// intractable for CBMC: > 900k symex steps, out of memory)
    fn check(deps: [[bool; NP]; NP], never: [bool; NP], n: usize) {
        let mut tc = TypeChecker { deps, never, imported: [false; NP], ok_count: [0; NP], calls: 0 };
        let metas = [Meta { node: ast::Path(0), id: MetaId(0) }, Meta { node: ast::Path(1), id: MetaId(1) }, Meta { node: ast::Path(2), id: MetaId(2) }];
        let refs: [&Meta<ast::Path>; NP] = [&metas[0], &metas[1], &metas[2]];
        let res = tc.imports(ScopeRef(0), &refs[..n]);
        // specification: least fixpoint of "importable"
        let mut can = [false; NP];
        let mut round = 0;
        while round < NP {
            let mut i = 0;
            while i < NP {
                if i < n && !never[i] {
                    let mut ok = true;
                    let mut j = 0;
                    while j < NP {
                        if deps[i][j] && !can[j] {
                            ok = false;
                        }
                        j += 1;
                    }
                    if ok {
                        can[i] = true;
                    }
                }
                i += 1;
            }
            round += 1;
        }
        let all = (n < 1 || can[0]) && (n < 2 || can[1]) && (n < 3 || can[2]);
        assert!(res.is_ok() == all, "OBL:C06.imports.succeeds_iff_every_import_is_resolvable_in_some_order");
        if let Err(TypeError(i)) = res {
            assert!(i < n && !can[i], "OBL:C06.imports.reports_an_unresolvable_import");
        }
        assert!(tc.ok_count[0] <= 1 && tc.ok_count[1] <= 1 && tc.ok_count[2] <= 1, "OBL:C06.imports.each_path_imported_at_most_once");
        assert!(tc.calls <= ((n + 1) * (n + 1)) as u32, "OBL:C06.imports.terminates_within_n_plus_one_rounds");
        kani::cover!(true, "COV:C06.imports.case_reached");
    }

    macro_rules! imports_case {
        ($name:ident, $deps:expr, $never:expr, $n:expr) => {
            #[kani::proof]
            #[kani::unwind(6)]
            fn $name() {
                check($deps, $never, $n);
            }
        };
    }
    const F: bool = false;
    const T: bool = true;
    const NONE: [[bool; NP]; NP] = [[F, F, F], [F, F, F], [F, F, F]];
    imports_case!(c06_u5_imports_empty, NONE, [F, F, F], 0);
    imports_case!(c06_u5_imports_one_ok, NONE, [F, F, F], 1);
    imports_case!(c06_u5_imports_one_unresolvable, NONE, [T, F, F], 1);
    imports_case!(c06_u5_imports_three_independent, NONE, [F, F, F], 3);
    imports_case!(c06_u5_imports_chain_in_order, [[F, F, F], [T, F, F], [F, T, F]], [F, F, F], 3);
    imports_case!(c06_u5_imports_chain_reverse_order, [[F, T, F], [F, F, T], [F, F, F]], [F, F, F], 3);
    imports_case!(c06_u5_imports_two_cycle, [[F, T, F], [T, F, F], [F, F, F]], [F, F, F], 3);
    imports_case!(c06_u5_imports_first_ok_second_unresolvable, NONE, [F, T, F], 2);
    imports_case!(c06_u5_imports_first_unresolvable_second_ok, NONE, [T, F, F], 2);
    imports_case!(c06_u5_imports_unresolvable_between_ok, NONE, [F, T, F], 3);
    imports_case!(c06_u5_imports_dependent_on_unresolvable, [[F, T, F], [F, F, F], [F, F, F]], [F, T, F], 3);
    imports_case!(c06_u5_imports_diamond, [[F, T, T], [F, F, F], [F, T, F]], [F, F, F], 3);
    imports_case!(c06_u5_imports_all_unresolvable, NONE, [T, T, T], 3);
}
