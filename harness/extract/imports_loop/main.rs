// K-ex unit `imports_loop` — assembled on every run by /verif/check.
#![allow(dead_code, unused_imports, unused_variables, unused_mut)]

pub mod parser {
    #[path = "/repo/src/parser/meta.rs"]
    pub mod meta;
}
pub mod ast {
    #[derive(Clone, Copy, Debug, PartialEq, Eq)]
    pub struct Path(pub usize);
}
pub mod typechecker {
    use crate::ast;
    use crate::parser::meta::Meta;

    #[derive(Clone, Copy, Debug, PartialEq, Eq)]
    pub struct ScopeRef(pub usize);
    #[derive(Clone, Copy, Debug, PartialEq, Eq)]
    pub struct TypeError(pub usize);
    pub type TypeResult<T> = Result<T, TypeError>;

    pub const NP: usize = 3;
    /// abstract import state: path i can be imported when every path in deps[i] has been
    pub struct TypeChecker {
        pub deps: [[bool; NP]; NP],
        pub never: [bool; NP],
        pub imported: [bool; NP],
        pub ok_count: [u8; NP],
        pub calls: u32,
    }
    impl TypeChecker {
        fn import(&mut self, _scope: ScopeRef, path: &ast::Path) -> TypeResult<()> {
            self.calls += 1;
            let i = path.0;
            if self.imported[i] || self.never[i] {
                return Err(TypeError(i));
            }
            let mut j = 0;
            while j < NP {
                if self.deps[i][j] && !self.imported[j] {
                    return Err(TypeError(i));
                }
                j += 1;
            }
            self.imported[i] = true;
            self.ok_count[i] += 1;
            Ok(())
        }

        /*@FN_IMPORTS@*/
    }

    include!("harness.rs");
}

fn main() {}
