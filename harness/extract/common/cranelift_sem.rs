// Trusted: Cranelift IR reference semantics of the integer opcodes roto emits, one native width
// per function.  Shared by the code generator unit (C01/C10) and the evaluator unit (C20) so that
// "agrees with the compiled code" refers to one definition.
//
//  iadd/isub/imul: wrapping;  udiv/urem: trap iff divisor == 0;
//  sdiv: trap iff divisor == 0 or (MIN, -1), else rounds toward zero;
//  srem: trap iff divisor == 0; MIN srem -1 == 0;  ineg: wrapping.
#[derive(Clone, Copy, PartialEq, Eq, Debug)]
pub enum Opcode {
    Iadd,
    Isub,
    Imul,
    Sdiv,
    Udiv,
    Srem,
    Urem,
    Ineg,
    Fadd,
    Fsub,
    Fmul,
    Fdiv,
    Fneg,
}

/// Cranelift IR reference semantics of the integer binary opcodes at one width:
///  iadd/isub/imul: wrapping;  udiv/urem: trap iff divisor == 0;
///  sdiv: trap iff divisor == 0 or (MIN, -1), else rounds toward zero;
///  srem: trap iff divisor == 0; MIN srem -1 == 0.
macro_rules! sem {
    ($name:ident, $u:ty, $i:ty) => {
        pub fn $name(op: Opcode, x: $u, y: $u, trap: &mut bool) -> $u {
            match op {
                Opcode::Iadd => x.wrapping_add(y),
                Opcode::Isub => x.wrapping_sub(y),
                Opcode::Imul => x.wrapping_mul(y),
                Opcode::Udiv => {
                    if y == 0 {
                        *trap = true;
                        0
                    } else {
                        x / y
                    }
                }
                Opcode::Urem => {
                    if y == 0 {
                        *trap = true;
                        0
                    } else {
                        x % y
                    }
                }
                Opcode::Sdiv => {
                    let (sx, sy) = (x as $i, y as $i);
                    if sy == 0 || (sx == <$i>::MIN && sy == -1) {
                        *trap = true;
                        0
                    } else {
                        (sx / sy) as $u
                    }
                }
                Opcode::Srem => {
                    let (sx, sy) = (x as $i, y as $i);
                    if sy == 0 {
                        *trap = true;
                        0
                    } else if sy == -1 {
                        0
                    } else {
                        (sx % sy) as $u
                    }
                }
                _ => 0,
            }
        }
    };
}
sem!(sem_i8, u8, i8);
sem!(sem_i16, u16, i16);
sem!(sem_i32, u32, i32);
sem!(sem_i64, u64, i64);

