// K-ex unit `parser_binop` — assembled on every run by /verif/check.
// Text that replaced a fragment marker is verbatim source of /repo.
#![allow(dead_code, unused_imports, unused_variables, unused_mut, unused_macros)]

macro_rules! format {
    ($($t:tt)*) => {
        ()
    };
}

pub mod ast {
    use crate::parser::meta::Meta;
    use crate::shim::Box;

    /*@ENUM_BINOP@*/

    /// reduced stand-in for ast::Expr: no heap, no drop glue
    #[derive(Clone, Copy, Debug, PartialEq)]
    pub enum Expr {
        Atom(u8),
        BinOp(Box<Meta<Expr>>, BinOp, Box<Meta<Expr>>),
    }
}

pub mod shim {
    use crate::ast::Expr;
    use crate::parser::meta::Meta;
    use core::marker::PhantomData;

    pub const ARENA: usize = 12;
    pub static mut NODES: [Option<(Expr, usize)>; ARENA] = [None; ARENA];
    pub static mut N_NODES: usize = 0;

    /// `Box<Meta<Expr>>` as an arena index
    #[derive(Debug)]
    pub struct Box<T> {
        pub idx: usize,
        _p: PhantomData<T>,
    }
    impl<T> Clone for Box<T> {
        fn clone(&self) -> Self {
            *self
        }
    }
    impl<T> Copy for Box<T> {}
    impl<T> PartialEq for Box<T> {
        fn eq(&self, o: &Self) -> bool {
            self.idx == o.idx
        }
    }
    impl Box<Meta<Expr>> {
        pub fn new(x: Meta<Expr>) -> Self {
            unsafe {
                assert!(N_NODES < ARENA, "shim: arena full");
                NODES[N_NODES] = Some((x.node, x.id.0));
                N_NODES += 1;
                Box { idx: N_NODES - 1, _p: PhantomData }
            }
        }
        pub fn get(&self) -> Expr {
            unsafe { NODES[self.idx].unwrap().0 }
        }
    }
}

pub mod parser {
    #[path = "/repo/src/parser/meta.rs"]
    pub mod meta;
    #[path = "/repo/src/parser/token.rs"]
    pub mod token;
    #[path = "/repo/src/parser/precedence.rs"]
    pub mod precedence;

    use crate::ast::{BinOp, Expr};
    use crate::shim::Box;
    use meta::{Meta, Span, Spans};
    use precedence::Associativity;
    use token::Token;

    #[derive(Debug, PartialEq)]
    pub struct ParseError {
        pub span: Span,
    }
    impl ParseError {
        pub fn custom(_a: (), _b: (), span: Span) -> Self {
            ParseError { span }
        }
        pub fn with_note(self, _n: &str) -> Self {
            self
        }
    }
    pub type ParseResult<T> = Result<T, ParseError>;

    #[derive(Clone, Copy)]
    pub struct Restrictions {
        pub forbid_records: bool,
    }

    pub const NTOK: usize = 8;
    pub struct Parser<'source, 'spans> {
        pub toks: [Option<Token<'source>>; NTOK],
        pub pos: usize,
        pub consumed: usize,
        pub next_atom: u8,
        pub spans: &'spans mut Spans,
    }
    impl<'source> Parser<'source, '_> {
        fn peek(&mut self) -> Option<&Token<'source>> {
            if self.pos < NTOK { self.toks[self.pos].as_ref() } else { None }
        }
        fn next(&mut self) -> ParseResult<(Token<'source>, Span)> {
            let p = self.pos;
            match if p < NTOK { self.toks[p].clone() } else { None } {
                Some(t) => {
                    self.pos += 1;
                    self.consumed += 1;
                    Ok((t, Span::new(0, p..p + 1)))
                }
                None => Err(ParseError { span: Span::new(0, p..p) }),
            }
        }
        /// shim of `negation`: one operand = one Ident token, numbered in source order
        fn negation(&mut self, _r: Restrictions) -> ParseResult<Meta<Expr>> {
            let p = self.pos;
            match self.next()? {
                (Token::Ident(_), span) => {
                    let k = self.next_atom;
                    self.next_atom += 1;
                    Ok(self.spans.add(span, Expr::Atom(k)))
                }
                (_, span) => Err(ParseError { span }),
            }
        }

        /*@FN_BINOP_EXPR@*/

        /*@FN_PEEK_BINOP@*/
    }

    include!("harness.rs");
}

fn main() {}
