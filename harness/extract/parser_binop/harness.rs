// Contract (C09): "binary operators group by the documented precedence and left associativity, so
// an expression and its fully parenthesised form behave identically, while unparenthesised chains
// of comparisons or mixtures of && and || are rejected"; no token is lost or invented.
mod h {
    use super::*;
    use crate::shim::{NODES, N_NODES};

    fn tok_of(op: BinOp) -> Token<'static> {
        match op {
            BinOp::And => Token::AmpAmp,
            BinOp::Or => Token::PipePipe,
            BinOp::Eq => Token::EqEq,
            BinOp::Ne => Token::BangEq,
            BinOp::Lt => Token::AngleLeft,
            BinOp::Le => Token::AngleLeftEq,
            BinOp::Gt => Token::AngleRight,
            BinOp::Ge => Token::AngleRightEq,
            BinOp::Add => Token::Plus,
            BinOp::Sub => Token::Hyphen,
            BinOp::Mul => Token::Star,
            BinOp::Div => Token::Slash,
            BinOp::Mod => Token::Percent,
        }
    }
    /// documented level: || && < comparisons < + - < * / %
    fn level(op: BinOp) -> u8 {
        match op {
            BinOp::And | BinOp::Or => 0,
            BinOp::Eq | BinOp::Ne | BinOp::Lt | BinOp::Le | BinOp::Gt | BinOp::Ge => 1,
            BinOp::Add | BinOp::Sub => 2,
            _ => 3,
        }
    }
    fn root_op(e: &Expr) -> Option<BinOp> {
        match e {
            Expr::BinOp(_, op, _) => Some(*op),
            Expr::Atom(_) => None,
        }
    }

    /// the documented meaning, independent of the parsing algorithm: in a range of operators the
    /// loosest level decides; its operators split the range left to right; two comparisons at the
    /// loosest level, or && together with ||, cannot be chained
    fn conflict(ops: &[BinOp; 3], lo: usize, hi: usize, depth: u8) -> bool {
        if lo >= hi || depth == 0 {
            return false;
        }
        let mut min = 4;
        let mut i = lo;
        while i < hi {
            if level(ops[i]) < min {
                min = level(ops[i]);
            }
            i += 1;
        }
        let (mut count, mut has_and, mut has_or) = (0, false, false);
        let mut i = lo;
        while i < hi {
            if level(ops[i]) == min {
                count += 1;
                has_and |= ops[i] == BinOp::And;
                has_or |= ops[i] == BinOp::Or;
            }
            i += 1;
        }
        if (min == 1 && count >= 2) || (min == 0 && has_and && has_or) {
            return true;
        }
        // recurse into the sub-ranges between the loosest operators
        let mut bad = false;
        let mut start = lo;
        let mut i = lo;
        while i <= hi {
            if i == hi || level(ops[i]) == min {
                bad |= conflict(ops, start, i, depth - 1);
                start = i + 1;
            }
            i += 1;
        }
        bad
    }

    /// in-order walk of the tree: atoms and operators in source order, each exactly once; every
    /// node respects the documented grouping: a right child binds strictly tighter, a left child
    /// at least as tight
    fn walk(e: &Expr, atoms: &mut u8, ops_seen: &mut usize, ops: &[BinOp; 3], ok: &mut bool, depth: u8) {
        if depth == 0 {
            *ok = false;
            return;
        }
        match e {
            Expr::Atom(k) => {
                *ok &= *k == *atoms;
                *atoms += 1;
            }
            Expr::BinOp(l, op, r) => {
                let (le, re) = (l.get(), r.get());
                walk(&le, atoms, ops_seen, ops, ok, depth - 1);
                *ok &= *ops_seen < 3 && ops[*ops_seen] == *op;
                *ops_seen += 1;
                if let Some(o1) = root_op(&le) {
                    *ok &= level(o1) >= level(*op);
                }
                if let Some(o2) = root_op(&re) {
                    *ok &= level(o2) > level(*op);
                }
                walk(&re, atoms, ops_seen, ops, ok, depth - 1);
            }
        }
    }

    fn run(ops: [BinOp; 3], n: usize) {
        unsafe {
            N_NODES = 0;
            NODES = [None; crate::shim::ARENA];
        }
        let mut toks: [Option<Token<'static>>; NTOK] = [None, None, None, None, None, None, None, None];
        toks[0] = Some(Token::Ident("x"));
        let mut i = 0;
        while i < 3 {
            if i < n {
                toks[2 * i + 1] = Some(tok_of(ops[i]));
                toks[2 * i + 2] = Some(Token::Ident("x"));
            }
            i += 1;
        }
        let mut spans = Spans::default();
        let mut p = Parser { toks, pos: 0, consumed: 0, next_atom: 0, spans: &mut spans };
        let res = p.binop_expr(None, Restrictions { forbid_records: false });
        let want_conflict = conflict(&ops, 0, n, 4);
        match res {
            Err(_) => assert!(want_conflict, "OBL:C09.parser.rejects_only_unchainable_operator_pairs"),
            Ok(tree) => {
                assert!(!want_conflict, "OBL:C09.parser.chained_comparisons_and_mixed_logic_are_rejected");
                assert!(p.consumed == 2 * n + 1, "OBL:C09.parser.every_token_consumed_exactly_once");
                let (mut atoms, mut seen, mut ok) = (0u8, 0usize, true);
                walk(&tree.node, &mut atoms, &mut seen, &ops, &mut ok, 5);
                assert!(ok && atoms as usize == n + 1 && seen == n, "OBL:C09.parser.tree_is_the_documented_grouping_in_source_order");
            }
        }
    }

    fn any_op() -> BinOp {
        let k: u8 = kani::any();
        kani::assume(k < 13);
        match k {
            0 => BinOp::And,
            1 => BinOp::Or,
            2 => BinOp::Eq,
            3 => BinOp::Ne,
            4 => BinOp::Lt,
            5 => BinOp::Le,
            6 => BinOp::Gt,
            7 => BinOp::Ge,
            8 => BinOp::Add,
            9 => BinOp::Sub,
            10 => BinOp::Mul,
            11 => BinOp::Div,
            _ => BinOp::Mod,
        }
    }

    /// one concrete operator sequence (a symbolic one makes the recursive descent intractable for
    /// CBMC). The unit sees operators only through relative_associativity, which C09-U1 proves
    /// equal to the documented table for all 13 x 13 pairs, so class representatives suffice:
    /// pairs over {&&, ||, ==, <, +, -, *, %}, triples over {&&, ||, <, +, *}.
    macro_rules! binop_case {
        ($name:ident, $ops:expr, $n:expr) => {
            #[kani::proof]
            #[kani::unwind(10)]
            fn $name() {
                run($ops, $n);
                kani::cover!(true, "COV:C09.parser.case_reached");
            }
        };
    }
    binop_case!(c09_u3_pair_and_and, [BinOp::And, BinOp::And, BinOp::Add], 2);
    binop_case!(c09_u3_pair_and_or, [BinOp::And, BinOp::Or, BinOp::Add], 2);
    binop_case!(c09_u3_pair_and_eq, [BinOp::And, BinOp::Eq, BinOp::Add], 2);
    binop_case!(c09_u3_pair_and_lt, [BinOp::And, BinOp::Lt, BinOp::Add], 2);
    binop_case!(c09_u3_pair_and_add, [BinOp::And, BinOp::Add, BinOp::Add], 2);
    binop_case!(c09_u3_pair_and_sub, [BinOp::And, BinOp::Sub, BinOp::Add], 2);
    binop_case!(c09_u3_pair_and_mul, [BinOp::And, BinOp::Mul, BinOp::Add], 2);
    binop_case!(c09_u3_pair_and_mod, [BinOp::And, BinOp::Mod, BinOp::Add], 2);
    binop_case!(c09_u3_pair_or_and, [BinOp::Or, BinOp::And, BinOp::Add], 2);
    binop_case!(c09_u3_pair_or_or, [BinOp::Or, BinOp::Or, BinOp::Add], 2);
    binop_case!(c09_u3_pair_or_eq, [BinOp::Or, BinOp::Eq, BinOp::Add], 2);
    binop_case!(c09_u3_pair_or_lt, [BinOp::Or, BinOp::Lt, BinOp::Add], 2);
    binop_case!(c09_u3_pair_or_add, [BinOp::Or, BinOp::Add, BinOp::Add], 2);
    binop_case!(c09_u3_pair_or_sub, [BinOp::Or, BinOp::Sub, BinOp::Add], 2);
    binop_case!(c09_u3_pair_or_mul, [BinOp::Or, BinOp::Mul, BinOp::Add], 2);
    binop_case!(c09_u3_pair_or_mod, [BinOp::Or, BinOp::Mod, BinOp::Add], 2);
    binop_case!(c09_u3_pair_eq_and, [BinOp::Eq, BinOp::And, BinOp::Add], 2);
    binop_case!(c09_u3_pair_eq_or, [BinOp::Eq, BinOp::Or, BinOp::Add], 2);
    binop_case!(c09_u3_pair_eq_eq, [BinOp::Eq, BinOp::Eq, BinOp::Add], 2);
    binop_case!(c09_u3_pair_eq_lt, [BinOp::Eq, BinOp::Lt, BinOp::Add], 2);
    binop_case!(c09_u3_pair_eq_add, [BinOp::Eq, BinOp::Add, BinOp::Add], 2);
    binop_case!(c09_u3_pair_eq_sub, [BinOp::Eq, BinOp::Sub, BinOp::Add], 2);
    binop_case!(c09_u3_pair_eq_mul, [BinOp::Eq, BinOp::Mul, BinOp::Add], 2);
    binop_case!(c09_u3_pair_eq_mod, [BinOp::Eq, BinOp::Mod, BinOp::Add], 2);
    binop_case!(c09_u3_pair_lt_and, [BinOp::Lt, BinOp::And, BinOp::Add], 2);
    binop_case!(c09_u3_pair_lt_or, [BinOp::Lt, BinOp::Or, BinOp::Add], 2);
    binop_case!(c09_u3_pair_lt_eq, [BinOp::Lt, BinOp::Eq, BinOp::Add], 2);
    binop_case!(c09_u3_pair_lt_lt, [BinOp::Lt, BinOp::Lt, BinOp::Add], 2);
    binop_case!(c09_u3_pair_lt_add, [BinOp::Lt, BinOp::Add, BinOp::Add], 2);
    binop_case!(c09_u3_pair_lt_sub, [BinOp::Lt, BinOp::Sub, BinOp::Add], 2);
    binop_case!(c09_u3_pair_lt_mul, [BinOp::Lt, BinOp::Mul, BinOp::Add], 2);
    binop_case!(c09_u3_pair_lt_mod, [BinOp::Lt, BinOp::Mod, BinOp::Add], 2);
    binop_case!(c09_u3_pair_add_and, [BinOp::Add, BinOp::And, BinOp::Add], 2);
    binop_case!(c09_u3_pair_add_or, [BinOp::Add, BinOp::Or, BinOp::Add], 2);
    binop_case!(c09_u3_pair_add_eq, [BinOp::Add, BinOp::Eq, BinOp::Add], 2);
    binop_case!(c09_u3_pair_add_lt, [BinOp::Add, BinOp::Lt, BinOp::Add], 2);
    binop_case!(c09_u3_pair_add_add, [BinOp::Add, BinOp::Add, BinOp::Add], 2);
    binop_case!(c09_u3_pair_add_sub, [BinOp::Add, BinOp::Sub, BinOp::Add], 2);
    binop_case!(c09_u3_pair_add_mul, [BinOp::Add, BinOp::Mul, BinOp::Add], 2);
    binop_case!(c09_u3_pair_add_mod, [BinOp::Add, BinOp::Mod, BinOp::Add], 2);
    binop_case!(c09_u3_pair_sub_and, [BinOp::Sub, BinOp::And, BinOp::Add], 2);
    binop_case!(c09_u3_pair_sub_or, [BinOp::Sub, BinOp::Or, BinOp::Add], 2);
    binop_case!(c09_u3_pair_sub_eq, [BinOp::Sub, BinOp::Eq, BinOp::Add], 2);
    binop_case!(c09_u3_pair_sub_lt, [BinOp::Sub, BinOp::Lt, BinOp::Add], 2);
    binop_case!(c09_u3_pair_sub_add, [BinOp::Sub, BinOp::Add, BinOp::Add], 2);
    binop_case!(c09_u3_pair_sub_sub, [BinOp::Sub, BinOp::Sub, BinOp::Add], 2);
    binop_case!(c09_u3_pair_sub_mul, [BinOp::Sub, BinOp::Mul, BinOp::Add], 2);
    binop_case!(c09_u3_pair_sub_mod, [BinOp::Sub, BinOp::Mod, BinOp::Add], 2);
    binop_case!(c09_u3_pair_mul_and, [BinOp::Mul, BinOp::And, BinOp::Add], 2);
    binop_case!(c09_u3_pair_mul_or, [BinOp::Mul, BinOp::Or, BinOp::Add], 2);
    binop_case!(c09_u3_pair_mul_eq, [BinOp::Mul, BinOp::Eq, BinOp::Add], 2);
    binop_case!(c09_u3_pair_mul_lt, [BinOp::Mul, BinOp::Lt, BinOp::Add], 2);
    binop_case!(c09_u3_pair_mul_add, [BinOp::Mul, BinOp::Add, BinOp::Add], 2);
    binop_case!(c09_u3_pair_mul_sub, [BinOp::Mul, BinOp::Sub, BinOp::Add], 2);
    binop_case!(c09_u3_pair_mul_mul, [BinOp::Mul, BinOp::Mul, BinOp::Add], 2);
    binop_case!(c09_u3_pair_mul_mod, [BinOp::Mul, BinOp::Mod, BinOp::Add], 2);
    binop_case!(c09_u3_pair_mod_and, [BinOp::Mod, BinOp::And, BinOp::Add], 2);
    binop_case!(c09_u3_pair_mod_or, [BinOp::Mod, BinOp::Or, BinOp::Add], 2);
    binop_case!(c09_u3_pair_mod_eq, [BinOp::Mod, BinOp::Eq, BinOp::Add], 2);
    binop_case!(c09_u3_pair_mod_lt, [BinOp::Mod, BinOp::Lt, BinOp::Add], 2);
    binop_case!(c09_u3_pair_mod_add, [BinOp::Mod, BinOp::Add, BinOp::Add], 2);
    binop_case!(c09_u3_pair_mod_sub, [BinOp::Mod, BinOp::Sub, BinOp::Add], 2);
    binop_case!(c09_u3_pair_mod_mul, [BinOp::Mod, BinOp::Mul, BinOp::Add], 2);
    binop_case!(c09_u3_pair_mod_mod, [BinOp::Mod, BinOp::Mod, BinOp::Add], 2);
    binop_case!(c09_u3_triple_and_and_and, [BinOp::And, BinOp::And, BinOp::And], 3);
    binop_case!(c09_u3_triple_and_and_or, [BinOp::And, BinOp::And, BinOp::Or], 3);
    binop_case!(c09_u3_triple_and_and_lt, [BinOp::And, BinOp::And, BinOp::Lt], 3);
    binop_case!(c09_u3_triple_and_and_add, [BinOp::And, BinOp::And, BinOp::Add], 3);
    binop_case!(c09_u3_triple_and_and_mul, [BinOp::And, BinOp::And, BinOp::Mul], 3);
    binop_case!(c09_u3_triple_and_or_and, [BinOp::And, BinOp::Or, BinOp::And], 3);
    binop_case!(c09_u3_triple_and_or_or, [BinOp::And, BinOp::Or, BinOp::Or], 3);
    binop_case!(c09_u3_triple_and_or_lt, [BinOp::And, BinOp::Or, BinOp::Lt], 3);
    binop_case!(c09_u3_triple_and_or_add, [BinOp::And, BinOp::Or, BinOp::Add], 3);
    binop_case!(c09_u3_triple_and_or_mul, [BinOp::And, BinOp::Or, BinOp::Mul], 3);
    binop_case!(c09_u3_triple_and_lt_and, [BinOp::And, BinOp::Lt, BinOp::And], 3);
    binop_case!(c09_u3_triple_and_lt_or, [BinOp::And, BinOp::Lt, BinOp::Or], 3);
    binop_case!(c09_u3_triple_and_lt_lt, [BinOp::And, BinOp::Lt, BinOp::Lt], 3);
    binop_case!(c09_u3_triple_and_lt_add, [BinOp::And, BinOp::Lt, BinOp::Add], 3);
    binop_case!(c09_u3_triple_and_lt_mul, [BinOp::And, BinOp::Lt, BinOp::Mul], 3);
    binop_case!(c09_u3_triple_and_add_and, [BinOp::And, BinOp::Add, BinOp::And], 3);
    binop_case!(c09_u3_triple_and_add_or, [BinOp::And, BinOp::Add, BinOp::Or], 3);
    binop_case!(c09_u3_triple_and_add_lt, [BinOp::And, BinOp::Add, BinOp::Lt], 3);
    binop_case!(c09_u3_triple_and_add_add, [BinOp::And, BinOp::Add, BinOp::Add], 3);
    binop_case!(c09_u3_triple_and_add_mul, [BinOp::And, BinOp::Add, BinOp::Mul], 3);
    binop_case!(c09_u3_triple_and_mul_and, [BinOp::And, BinOp::Mul, BinOp::And], 3);
    binop_case!(c09_u3_triple_and_mul_or, [BinOp::And, BinOp::Mul, BinOp::Or], 3);
    binop_case!(c09_u3_triple_and_mul_lt, [BinOp::And, BinOp::Mul, BinOp::Lt], 3);
    binop_case!(c09_u3_triple_and_mul_add, [BinOp::And, BinOp::Mul, BinOp::Add], 3);
    binop_case!(c09_u3_triple_and_mul_mul, [BinOp::And, BinOp::Mul, BinOp::Mul], 3);
    binop_case!(c09_u3_triple_or_and_and, [BinOp::Or, BinOp::And, BinOp::And], 3);
    binop_case!(c09_u3_triple_or_and_or, [BinOp::Or, BinOp::And, BinOp::Or], 3);
    binop_case!(c09_u3_triple_or_and_lt, [BinOp::Or, BinOp::And, BinOp::Lt], 3);
    binop_case!(c09_u3_triple_or_and_add, [BinOp::Or, BinOp::And, BinOp::Add], 3);
    binop_case!(c09_u3_triple_or_and_mul, [BinOp::Or, BinOp::And, BinOp::Mul], 3);
    binop_case!(c09_u3_triple_or_or_and, [BinOp::Or, BinOp::Or, BinOp::And], 3);
    binop_case!(c09_u3_triple_or_or_or, [BinOp::Or, BinOp::Or, BinOp::Or], 3);
    binop_case!(c09_u3_triple_or_or_lt, [BinOp::Or, BinOp::Or, BinOp::Lt], 3);
    binop_case!(c09_u3_triple_or_or_add, [BinOp::Or, BinOp::Or, BinOp::Add], 3);
    binop_case!(c09_u3_triple_or_or_mul, [BinOp::Or, BinOp::Or, BinOp::Mul], 3);
    binop_case!(c09_u3_triple_or_lt_and, [BinOp::Or, BinOp::Lt, BinOp::And], 3);
    binop_case!(c09_u3_triple_or_lt_or, [BinOp::Or, BinOp::Lt, BinOp::Or], 3);
    binop_case!(c09_u3_triple_or_lt_lt, [BinOp::Or, BinOp::Lt, BinOp::Lt], 3);
    binop_case!(c09_u3_triple_or_lt_add, [BinOp::Or, BinOp::Lt, BinOp::Add], 3);
    binop_case!(c09_u3_triple_or_lt_mul, [BinOp::Or, BinOp::Lt, BinOp::Mul], 3);
    binop_case!(c09_u3_triple_or_add_and, [BinOp::Or, BinOp::Add, BinOp::And], 3);
    binop_case!(c09_u3_triple_or_add_or, [BinOp::Or, BinOp::Add, BinOp::Or], 3);
    binop_case!(c09_u3_triple_or_add_lt, [BinOp::Or, BinOp::Add, BinOp::Lt], 3);
    binop_case!(c09_u3_triple_or_add_add, [BinOp::Or, BinOp::Add, BinOp::Add], 3);
    binop_case!(c09_u3_triple_or_add_mul, [BinOp::Or, BinOp::Add, BinOp::Mul], 3);
    binop_case!(c09_u3_triple_or_mul_and, [BinOp::Or, BinOp::Mul, BinOp::And], 3);
    binop_case!(c09_u3_triple_or_mul_or, [BinOp::Or, BinOp::Mul, BinOp::Or], 3);
    binop_case!(c09_u3_triple_or_mul_lt, [BinOp::Or, BinOp::Mul, BinOp::Lt], 3);
    binop_case!(c09_u3_triple_or_mul_add, [BinOp::Or, BinOp::Mul, BinOp::Add], 3);
    binop_case!(c09_u3_triple_or_mul_mul, [BinOp::Or, BinOp::Mul, BinOp::Mul], 3);
    binop_case!(c09_u3_triple_lt_and_and, [BinOp::Lt, BinOp::And, BinOp::And], 3);
    binop_case!(c09_u3_triple_lt_and_or, [BinOp::Lt, BinOp::And, BinOp::Or], 3);
    binop_case!(c09_u3_triple_lt_and_lt, [BinOp::Lt, BinOp::And, BinOp::Lt], 3);
    binop_case!(c09_u3_triple_lt_and_add, [BinOp::Lt, BinOp::And, BinOp::Add], 3);
    binop_case!(c09_u3_triple_lt_and_mul, [BinOp::Lt, BinOp::And, BinOp::Mul], 3);
    binop_case!(c09_u3_triple_lt_or_and, [BinOp::Lt, BinOp::Or, BinOp::And], 3);
    binop_case!(c09_u3_triple_lt_or_or, [BinOp::Lt, BinOp::Or, BinOp::Or], 3);
    binop_case!(c09_u3_triple_lt_or_lt, [BinOp::Lt, BinOp::Or, BinOp::Lt], 3);
    binop_case!(c09_u3_triple_lt_or_add, [BinOp::Lt, BinOp::Or, BinOp::Add], 3);
    binop_case!(c09_u3_triple_lt_or_mul, [BinOp::Lt, BinOp::Or, BinOp::Mul], 3);
    binop_case!(c09_u3_triple_lt_lt_and, [BinOp::Lt, BinOp::Lt, BinOp::And], 3);
    binop_case!(c09_u3_triple_lt_lt_or, [BinOp::Lt, BinOp::Lt, BinOp::Or], 3);
    binop_case!(c09_u3_triple_lt_lt_lt, [BinOp::Lt, BinOp::Lt, BinOp::Lt], 3);
    binop_case!(c09_u3_triple_lt_lt_add, [BinOp::Lt, BinOp::Lt, BinOp::Add], 3);
    binop_case!(c09_u3_triple_lt_lt_mul, [BinOp::Lt, BinOp::Lt, BinOp::Mul], 3);
    binop_case!(c09_u3_triple_lt_add_and, [BinOp::Lt, BinOp::Add, BinOp::And], 3);
    binop_case!(c09_u3_triple_lt_add_or, [BinOp::Lt, BinOp::Add, BinOp::Or], 3);
    binop_case!(c09_u3_triple_lt_add_lt, [BinOp::Lt, BinOp::Add, BinOp::Lt], 3);
    binop_case!(c09_u3_triple_lt_add_add, [BinOp::Lt, BinOp::Add, BinOp::Add], 3);
    binop_case!(c09_u3_triple_lt_add_mul, [BinOp::Lt, BinOp::Add, BinOp::Mul], 3);
    binop_case!(c09_u3_triple_lt_mul_and, [BinOp::Lt, BinOp::Mul, BinOp::And], 3);
    binop_case!(c09_u3_triple_lt_mul_or, [BinOp::Lt, BinOp::Mul, BinOp::Or], 3);
    binop_case!(c09_u3_triple_lt_mul_lt, [BinOp::Lt, BinOp::Mul, BinOp::Lt], 3);
    binop_case!(c09_u3_triple_lt_mul_add, [BinOp::Lt, BinOp::Mul, BinOp::Add], 3);
    binop_case!(c09_u3_triple_lt_mul_mul, [BinOp::Lt, BinOp::Mul, BinOp::Mul], 3);
    binop_case!(c09_u3_triple_add_and_and, [BinOp::Add, BinOp::And, BinOp::And], 3);
    binop_case!(c09_u3_triple_add_and_or, [BinOp::Add, BinOp::And, BinOp::Or], 3);
    binop_case!(c09_u3_triple_add_and_lt, [BinOp::Add, BinOp::And, BinOp::Lt], 3);
    binop_case!(c09_u3_triple_add_and_add, [BinOp::Add, BinOp::And, BinOp::Add], 3);
    binop_case!(c09_u3_triple_add_and_mul, [BinOp::Add, BinOp::And, BinOp::Mul], 3);
    binop_case!(c09_u3_triple_add_or_and, [BinOp::Add, BinOp::Or, BinOp::And], 3);
    binop_case!(c09_u3_triple_add_or_or, [BinOp::Add, BinOp::Or, BinOp::Or], 3);
    binop_case!(c09_u3_triple_add_or_lt, [BinOp::Add, BinOp::Or, BinOp::Lt], 3);
    binop_case!(c09_u3_triple_add_or_add, [BinOp::Add, BinOp::Or, BinOp::Add], 3);
    binop_case!(c09_u3_triple_add_or_mul, [BinOp::Add, BinOp::Or, BinOp::Mul], 3);
    binop_case!(c09_u3_triple_add_lt_and, [BinOp::Add, BinOp::Lt, BinOp::And], 3);
    binop_case!(c09_u3_triple_add_lt_or, [BinOp::Add, BinOp::Lt, BinOp::Or], 3);
    binop_case!(c09_u3_triple_add_lt_lt, [BinOp::Add, BinOp::Lt, BinOp::Lt], 3);
    binop_case!(c09_u3_triple_add_lt_add, [BinOp::Add, BinOp::Lt, BinOp::Add], 3);
    binop_case!(c09_u3_triple_add_lt_mul, [BinOp::Add, BinOp::Lt, BinOp::Mul], 3);
    binop_case!(c09_u3_triple_add_add_and, [BinOp::Add, BinOp::Add, BinOp::And], 3);
    binop_case!(c09_u3_triple_add_add_or, [BinOp::Add, BinOp::Add, BinOp::Or], 3);
    binop_case!(c09_u3_triple_add_add_lt, [BinOp::Add, BinOp::Add, BinOp::Lt], 3);
    binop_case!(c09_u3_triple_add_add_add, [BinOp::Add, BinOp::Add, BinOp::Add], 3);
    binop_case!(c09_u3_triple_add_add_mul, [BinOp::Add, BinOp::Add, BinOp::Mul], 3);
    binop_case!(c09_u3_triple_add_mul_and, [BinOp::Add, BinOp::Mul, BinOp::And], 3);
    binop_case!(c09_u3_triple_add_mul_or, [BinOp::Add, BinOp::Mul, BinOp::Or], 3);
    binop_case!(c09_u3_triple_add_mul_lt, [BinOp::Add, BinOp::Mul, BinOp::Lt], 3);
    binop_case!(c09_u3_triple_add_mul_add, [BinOp::Add, BinOp::Mul, BinOp::Add], 3);
    binop_case!(c09_u3_triple_add_mul_mul, [BinOp::Add, BinOp::Mul, BinOp::Mul], 3);
    binop_case!(c09_u3_triple_mul_and_and, [BinOp::Mul, BinOp::And, BinOp::And], 3);
    binop_case!(c09_u3_triple_mul_and_or, [BinOp::Mul, BinOp::And, BinOp::Or], 3);
    binop_case!(c09_u3_triple_mul_and_lt, [BinOp::Mul, BinOp::And, BinOp::Lt], 3);
    binop_case!(c09_u3_triple_mul_and_add, [BinOp::Mul, BinOp::And, BinOp::Add], 3);
    binop_case!(c09_u3_triple_mul_and_mul, [BinOp::Mul, BinOp::And, BinOp::Mul], 3);
    binop_case!(c09_u3_triple_mul_or_and, [BinOp::Mul, BinOp::Or, BinOp::And], 3);
    binop_case!(c09_u3_triple_mul_or_or, [BinOp::Mul, BinOp::Or, BinOp::Or], 3);
    binop_case!(c09_u3_triple_mul_or_lt, [BinOp::Mul, BinOp::Or, BinOp::Lt], 3);
    binop_case!(c09_u3_triple_mul_or_add, [BinOp::Mul, BinOp::Or, BinOp::Add], 3);
    binop_case!(c09_u3_triple_mul_or_mul, [BinOp::Mul, BinOp::Or, BinOp::Mul], 3);
    binop_case!(c09_u3_triple_mul_lt_and, [BinOp::Mul, BinOp::Lt, BinOp::And], 3);
    binop_case!(c09_u3_triple_mul_lt_or, [BinOp::Mul, BinOp::Lt, BinOp::Or], 3);
    binop_case!(c09_u3_triple_mul_lt_lt, [BinOp::Mul, BinOp::Lt, BinOp::Lt], 3);
    binop_case!(c09_u3_triple_mul_lt_add, [BinOp::Mul, BinOp::Lt, BinOp::Add], 3);
    binop_case!(c09_u3_triple_mul_lt_mul, [BinOp::Mul, BinOp::Lt, BinOp::Mul], 3);
    binop_case!(c09_u3_triple_mul_add_and, [BinOp::Mul, BinOp::Add, BinOp::And], 3);
    binop_case!(c09_u3_triple_mul_add_or, [BinOp::Mul, BinOp::Add, BinOp::Or], 3);
    binop_case!(c09_u3_triple_mul_add_lt, [BinOp::Mul, BinOp::Add, BinOp::Lt], 3);
    binop_case!(c09_u3_triple_mul_add_add, [BinOp::Mul, BinOp::Add, BinOp::Add], 3);
    binop_case!(c09_u3_triple_mul_add_mul, [BinOp::Mul, BinOp::Add, BinOp::Mul], 3);
    binop_case!(c09_u3_triple_mul_mul_and, [BinOp::Mul, BinOp::Mul, BinOp::And], 3);
    binop_case!(c09_u3_triple_mul_mul_or, [BinOp::Mul, BinOp::Mul, BinOp::Or], 3);
    binop_case!(c09_u3_triple_mul_mul_lt, [BinOp::Mul, BinOp::Mul, BinOp::Lt], 3);
    binop_case!(c09_u3_triple_mul_mul_add, [BinOp::Mul, BinOp::Mul, BinOp::Add], 3);
    binop_case!(c09_u3_triple_mul_mul_mul, [BinOp::Mul, BinOp::Mul, BinOp::Mul], 3);
    binop_case!(c09_u3_single_atom, [BinOp::Add, BinOp::Add, BinOp::Add], 0);
    binop_case!(c09_u3_single_operator, [BinOp::Ge, BinOp::Add, BinOp::Add], 1);

    /// peek_binop: token <-> operator table, and no other token is an operator
    #[kani::proof]
    #[kani::unwind(10)]
    fn c09_u2_peek_binop_table() {
        let op = any_op();
        let mut spans = Spans::default();
        let mut toks: [Option<Token<'static>>; NTOK] = [None, None, None, None, None, None, None, None];
        toks[0] = Some(tok_of(op));
        let mut p = Parser { toks, pos: 0, consumed: 0, next_atom: 0, spans: &mut spans };
        assert!(p.peek_binop() == Some(op), "OBL:C09.parser.peek_binop_maps_each_operator_token_to_its_operator");
        assert!(p.pos == 0, "OBL:C09.parser.peek_binop_does_not_consume");
        let other: u8 = kani::any();
        kani::assume(other < 6);
        p.toks[0] = Some(match other {
            0 => Token::Eq,
            1 => Token::Bang,
            2 => Token::Pipe,
            3 => Token::Arrow,
            4 => Token::Ident("x"),
            _ => Token::PlusEq,
        });
        assert!(p.peek_binop().is_none(), "OBL:C09.parser.non_operator_tokens_are_not_operators");
        kani::cover!(op == BinOp::Mod, "COV:C09.parser.percent_reached");
    }

    #[kani::proof]
    #[kani::unwind(10)]
    fn canary_c09_u3_binop_expr() {
        let ops = [BinOp::Add, BinOp::Mul, BinOp::Add];
        unsafe {
            N_NODES = 0;
        }
        run(ops, 2);
        assert!(unsafe { N_NODES } == 0, "CANARY:C09.parser.no_tree_built");
    }
}
