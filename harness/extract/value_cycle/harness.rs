// Contracts (C14): "every constant is evaluated after every constant it depends on directly or
// through the functions it calls, whatever the declaration order; a constant that depends on
// itself directly or through other constants and functions, or that transitively reads a context
// variable, is rejected".
mod h {
    use super::*;
    use crate::typechecker::scope::{DeclarationKind, ScopeGraph};
    use crate::typechecker::{TypeError, TypeInfo};

    const N: usize = 3;

    fn any_graph() -> ([[bool; N]; N], BTreeMap<ResolvedName, BTreeSet<ResolvedName>>) {
        let adj: [[bool; N]; N] = kani::any();
        let mut m = BTreeMap::new();
        // vertices are inserted in an arbitrary order (the declaration order must not matter)
        let first: usize = kani::any();
        kani::assume(first < N);
        let mut t = 0;
        while t < N {
            let u = (first + t) % N;
            let mut s = BTreeSet::new();
            let mut v = 0;
            while v < N {
                if adj[u][v] {
                    s.insert(ResolvedName(v as u8));
                }
                v += 1;
            }
            m.insert(ResolvedName(u as u8), s);
            t += 1;
        }
        (adj, m)
    }

    /// reflexive-transitive closure (Floyd-Warshall), the specification's notion of "depends on"
    fn closure(adj: &[[bool; N]; N]) -> [[bool; N]; N] {
        let mut r = *adj;
        let mut i = 0;
        while i < N {
            r[i][i] = true;
            i += 1;
        }
        let mut k = 0;
        while k < N {
            let mut i = 0;
            while i < N {
                let mut j = 0;
                while j < N {
                    if r[i][k] && r[k][j] {
                        r[i][j] = true;
                    }
                    j += 1;
                }
                i += 1;
            }
            k += 1;
        }
        r
    }

    /// position of the component that contains v, and how often v occurs in the output
    fn locate(components: &Vec<Vec<ResolvedName>>, v: usize) -> (usize, usize) {
        let mut pos = usize::MAX;
        let mut count = 0;
        let mut c = 0;
        while c < components.len() && c < N + 1 {
            let mut e = 0;
            while e < components[c].len() && e < N + 1 {
                if components[c][e] == ResolvedName(v as u8) {
                    pos = c;
                    count += 1;
                }
                e += 1;
            }
            c += 1;
        }
        (pos, count)
    }

    /// tarjan: the components partition the vertices, are exactly the classes of mutual
    /// reachability, and come dependencies-first.
    #[kani::proof]
    #[kani::unwind(7)]
    fn c14_u1_tarjan() {
        let (adj, m) = any_graph();
        let comps = tarjan(&m);
        let reach = closure(&adj);
        let (u, v): (usize, usize) = (kani::any(), kani::any());
        kani::assume(u < N && v < N);
        let (pu, cu) = locate(&comps, u);
        let (pv, cv) = locate(&comps, v);
        assert!(cu == 1 && cv == 1, "OBL:C14.tarjan.every_item_appears_exactly_once");
        assert!((pu == pv) == (reach[u][v] && reach[v][u]), "OBL:C14.tarjan.components_are_the_mutual_dependency_classes");
        if adj[u][v] && pu != pv {
            assert!(pv < pu, "OBL:C14.tarjan.dependencies_come_first");
        }
        kani::cover!(adj[u][v] && pu != pv, "COV:C14.tarjan.cross_component_edge_reached");
        kani::cover!(u != v && pu == pv, "COV:C14.tarjan.nontrivial_component_reached");
    }

    #[kani::proof]
    #[kani::unwind(7)]
    fn canary_c14_u1_tarjan() {
        let (adj, m) = any_graph();
        let comps = tarjan(&m);
        let (u, v): (usize, usize) = (kani::any(), kani::any());
        kani::assume(u < N && v < N && adj[u][v]);
        let (pu, _) = locate(&comps, u);
        let (pv, _) = locate(&comps, v);
        assert!(pu == pv, "CANARY:C14.tarjan.every_edge_stays_inside_a_component");
    }

    fn any_kind() -> (DeclarationKind, u8) {
        let k: u8 = kani::any();
        kani::assume(k < 3);
        (
            match k {
                0 => DeclarationKind::Function(None),
                1 => DeclarationKind::Value(ValueKind::Constant, None),
                _ => DeclarationKind::Value(ValueKind::Context(0), None),
            },
            k,
        )
    }

    /// find_compilation_order: Err exactly for (a) a constant in a dependency cycle (self-loop or a
    /// larger component), else (b) a constant that reaches a context variable; otherwise the items
    /// in an order in which every dependency of a constant precedes it.
    #[kani::proof]
    #[kani::unwind(7)]
    fn c14_u2_find_compilation_order() {
        let (adj, m) = any_graph();
        let (k0, t0) = any_kind();
        let (k1, t1) = any_kind();
        let (k2, t2) = any_kind();
        let kinds = [t0, t1, t2];
        let tc = TypeChecker {
            references: RefGraph { references: m },
            type_info: TypeInfo { scope_graph: ScopeGraph { decls: [k0, k1, k2, DeclarationKind::Function(None)] } },
        };
        let reach = closure(&adj);
        // specification
        let mut cyclic_constant = false;
        let mut context_constant = false;
        let mut c = 0;
        while c < N {
            if kinds[c] == 1 {
                let mut o = 0;
                while o < N {
                    if (o == c && adj[c][c]) || (o != c && reach[c][o] && reach[o][c]) {
                        cyclic_constant = true;
                    }
                    if kinds[o] == 2 && reach[c][o] {
                        context_constant = true;
                    }
                    o += 1;
                }
            }
            c += 1;
        }
        let res = tc.find_compilation_order();
        match &res {
            Err(TypeError::RecursiveConstant(i)) => {
                assert!(cyclic_constant && kinds[*i as usize] == 1, "OBL:C14.order.recursive_constant_error_only_for_a_constant_in_a_cycle");
            }
            Err(TypeError::ConstantUsesContext(i)) => {
                assert!(!cyclic_constant && context_constant && kinds[*i as usize] == 1, "OBL:C14.order.context_error_only_for_a_constant_reaching_context");
            }
            Ok(order) => {
                assert!(!cyclic_constant, "OBL:C14.order.constant_in_a_cycle_is_rejected");
                assert!(!context_constant, "OBL:C14.order.constant_reaching_context_is_rejected");
                assert!(order.len() == N, "OBL:C14.order.every_item_is_ordered_exactly_once");
                let (u, v): (usize, usize) = (kani::any(), kani::any());
                kani::assume(u < N && v < N && u != v && adj[u][v] && !(reach[v][u]));
                let mut pu = N;
                let mut pv = N;
                let mut i = 0;
                while i < N {
                    if i < order.len() {
                        if order[i] == ResolvedName(u as u8) {
                            pu = i;
                        }
                        if order[i] == ResolvedName(v as u8) {
                            pv = i;
                        }
                    }
                    i += 1;
                }
                assert!(pu < N && pv < N && pv < pu, "OBL:C14.order.dependencies_are_generated_first");
            }
        }
        kani::cover!(res.is_ok() && kinds[0] == 1 && adj[0][1] && kinds[1] == 0 && adj[1][2] && kinds[2] == 1, "COV:C14.order.constant_via_function_to_constant_reached");
        kani::cover!(matches!(res, Err(TypeError::ConstantUsesContext(_))), "COV:C14.order.context_error_reached");
        kani::cover!(matches!(res, Err(TypeError::RecursiveConstant(_))) && !adj[0][0] && !adj[1][1] && !adj[2][2], "COV:C14.order.indirect_cycle_error_reached");
    }
}
