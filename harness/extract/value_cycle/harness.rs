// Contracts (C14): "every constant is evaluated after every constant it depends on directly or
// through the functions it calls, whatever the declaration order; a constant that depends on
// itself directly or through other constants and functions, or that transitively reads a context
// variable, is rejected".
mod h {
    use super::*;
    use crate::typechecker::scope::{DeclarationKind, ScopeGraph};
    use crate::typechecker::{TypeError, TypeInfo};

    const N: usize = 3;

    /// the dependency graph with edge u -> v iff bit (3u + v) of `mask` is set; items are inserted
    /// starting from `first` (the declaration order must not matter)
    fn graph(mask: u16, first: usize) -> ([[bool; N]; N], BTreeMap<ResolvedName, BTreeSet<ResolvedName>>) {
        let mut adj = [[false; N]; N];
        let mut m = BTreeMap::new();
        let mut t = 0;
        while t < N {
            let u = (first + t) % N;
            let mut s = BTreeSet::new();
            let mut v = 0;
            while v < N {
                if (mask >> (3 * u + v)) & 1 == 1 {
                    adj[u][v] = true;
                    s.insert(ResolvedName(v as u8));
                }
                v += 1;
            }
            m.insert(ResolvedName(u as u8), s);
            t += 1;
        }
        (adj, m)
    }

    /// reflexive-transitive closure (Floyd-Warshall), the specification's notion of "depends on"
    fn closure(adj: &[[bool; N]; N]) -> [[bool; N]; N] {
        let mut r = *adj;
        let mut i = 0;
        while i < N {
            r[i][i] = true;
            i += 1;
        }
        let mut k = 0;
        while k < N {
            let mut i = 0;
            while i < N {
                let mut j = 0;
                while j < N {
                    if r[i][k] && r[k][j] {
                        r[i][j] = true;
                    }
                    j += 1;
                }
                i += 1;
            }
            k += 1;
        }
        r
    }

    /// position of the component that contains v, and how often v occurs in the output
    fn locate(components: &Vec<Vec<ResolvedName>>, v: usize) -> (usize, usize) {
        let mut pos = usize::MAX;
        let mut count = 0;
        let mut c = 0;
        while c < N + 1 {
            let mut e = 0;
            while c < components.len() && e < N + 1 && e < components[c].len() {
                if components[c][e] == ResolvedName(v as u8) {
                    pos = c;
                    count += 1;
                }
                e += 1;
            }
            c += 1;
        }
        (pos, count)
    }

    /// tarjan on one concrete graph: the components partition the items, are exactly the classes
    /// of mutual reachability, and come dependencies-first (all ordered pairs checked).
    fn check_tarjan(mask: u16, first: usize) {
        let (adj, m) = graph(mask, first);
        let comps = tarjan(&m);
        let reach = closure(&adj);
        let mut u = 0;
        while u < N {
            let mut v = 0;
            while v < N {
                let (pu, cu) = locate(&comps, u);
                let (pv, cv) = locate(&comps, v);
                assert!(cu == 1 && cv == 1, "OBL:C14.tarjan.every_item_appears_exactly_once");
                assert!((pu == pv) == (reach[u][v] && reach[v][u]), "OBL:C14.tarjan.components_are_the_mutual_dependency_classes");
                assert!(!(adj[u][v] && pu != pv) || pv < pu, "OBL:C14.tarjan.dependencies_come_first");
                v += 1;
            }
            u += 1;
        }
        kani::cover!(comps.len() >= 1, "COV:C14.tarjan.components_produced");
    }
    macro_rules! tarjan_case {
        ($name:ident, $mask:expr, $first:expr) => {
            #[kani::proof]
            #[kani::unwind(7)]
            fn $name() {
                check_tarjan($mask, $first);
            }
        };
    }
    tarjan_case!(c14_u1_tarjan_g000, 0, 0);
    tarjan_case!(c14_u1_tarjan_g002, 2, 1);
    tarjan_case!(c14_u1_tarjan_g004, 4, 2);
    tarjan_case!(c14_u1_tarjan_g006, 6, 0);
    tarjan_case!(c14_u1_tarjan_g008, 8, 1);
    tarjan_case!(c14_u1_tarjan_g00a, 10, 2);
    tarjan_case!(c14_u1_tarjan_g00c, 12, 0);
    tarjan_case!(c14_u1_tarjan_g00e, 14, 1);
    tarjan_case!(c14_u1_tarjan_g020, 32, 2);
    tarjan_case!(c14_u1_tarjan_g022, 34, 0);
    tarjan_case!(c14_u1_tarjan_g024, 36, 1);
    tarjan_case!(c14_u1_tarjan_g026, 38, 2);
    tarjan_case!(c14_u1_tarjan_g028, 40, 0);
    tarjan_case!(c14_u1_tarjan_g02a, 42, 1);
    tarjan_case!(c14_u1_tarjan_g02c, 44, 2);
    tarjan_case!(c14_u1_tarjan_g02e, 46, 0);
    tarjan_case!(c14_u1_tarjan_g040, 64, 1);
    tarjan_case!(c14_u1_tarjan_g042, 66, 2);
    tarjan_case!(c14_u1_tarjan_g044, 68, 0);
    tarjan_case!(c14_u1_tarjan_g046, 70, 1);
    tarjan_case!(c14_u1_tarjan_g048, 72, 2);
    tarjan_case!(c14_u1_tarjan_g04a, 74, 0);
    tarjan_case!(c14_u1_tarjan_g04c, 76, 1);
    tarjan_case!(c14_u1_tarjan_g04e, 78, 2);
    tarjan_case!(c14_u1_tarjan_g060, 96, 0);
    tarjan_case!(c14_u1_tarjan_g062, 98, 1);
    tarjan_case!(c14_u1_tarjan_g064, 100, 2);
    tarjan_case!(c14_u1_tarjan_g066, 102, 0);
    tarjan_case!(c14_u1_tarjan_g068, 104, 1);
    tarjan_case!(c14_u1_tarjan_g06a, 106, 2);
    tarjan_case!(c14_u1_tarjan_g06c, 108, 0);
    tarjan_case!(c14_u1_tarjan_g06e, 110, 1);
    tarjan_case!(c14_u1_tarjan_g080, 128, 2);
    tarjan_case!(c14_u1_tarjan_g082, 130, 0);
    tarjan_case!(c14_u1_tarjan_g084, 132, 1);
    tarjan_case!(c14_u1_tarjan_g086, 134, 2);
    tarjan_case!(c14_u1_tarjan_g088, 136, 0);
    tarjan_case!(c14_u1_tarjan_g08a, 138, 1);
    tarjan_case!(c14_u1_tarjan_g08c, 140, 2);
    tarjan_case!(c14_u1_tarjan_g08e, 142, 0);
    tarjan_case!(c14_u1_tarjan_g0a0, 160, 1);
    tarjan_case!(c14_u1_tarjan_g0a2, 162, 2);
    tarjan_case!(c14_u1_tarjan_g0a4, 164, 0);
    tarjan_case!(c14_u1_tarjan_g0a6, 166, 1);
    tarjan_case!(c14_u1_tarjan_g0a8, 168, 2);
    tarjan_case!(c14_u1_tarjan_g0aa, 170, 0);
    tarjan_case!(c14_u1_tarjan_g0ac, 172, 1);
    tarjan_case!(c14_u1_tarjan_g0ae, 174, 2);
    tarjan_case!(c14_u1_tarjan_g0c0, 192, 0);
    tarjan_case!(c14_u1_tarjan_g0c2, 194, 1);
    tarjan_case!(c14_u1_tarjan_g0c4, 196, 2);
    tarjan_case!(c14_u1_tarjan_g0c6, 198, 0);
    tarjan_case!(c14_u1_tarjan_g0c8, 200, 1);
    tarjan_case!(c14_u1_tarjan_g0ca, 202, 2);
    tarjan_case!(c14_u1_tarjan_g0cc, 204, 0);
    tarjan_case!(c14_u1_tarjan_g0ce, 206, 1);
    tarjan_case!(c14_u1_tarjan_g0e0, 224, 2);
    tarjan_case!(c14_u1_tarjan_g0e2, 226, 0);
    tarjan_case!(c14_u1_tarjan_g0e4, 228, 1);
    tarjan_case!(c14_u1_tarjan_g0e6, 230, 2);
    tarjan_case!(c14_u1_tarjan_g0e8, 232, 0);
    tarjan_case!(c14_u1_tarjan_g0ea, 234, 1);
    tarjan_case!(c14_u1_tarjan_g0ec, 236, 2);
    tarjan_case!(c14_u1_tarjan_g0ee, 238, 0);

    #[kani::proof]
    #[kani::unwind(7)]
    fn canary_c14_u1_tarjan() {
        // 0 -> 1 -> 2: three singleton components, so "every edge stays inside a component" must fail
        let (adj, m) = graph(0b000_100_010, 0);
        let comps = tarjan(&m);
        let (p0, _) = locate(&comps, 0);
        let (p1, _) = locate(&comps, 1);
        assert!(!adj[0][1] || p0 == p1, "CANARY:C14.tarjan.every_edge_stays_inside_a_component");
    }

    fn any_kind() -> (DeclarationKind, u8) {
        let k: u8 = kani::any();
        kani::assume(k < 3);
        (
            match k {
                0 => DeclarationKind::Function(None),
                1 => DeclarationKind::Value(ValueKind::Constant, None),
                _ => DeclarationKind::Value(ValueKind::Context(0), None),
            },
            k,
        )
    }

    /// find_compilation_order on one concrete graph, for all 27 assignments of
    /// {function, constant, context variable}: Err exactly for (a) a constant in a dependency cycle
    /// (self-loop or a larger component), else (b) a constant that reaches a context variable;
    /// otherwise the items in an order in which every dependency precedes its dependent.
    fn check_order(mask: u16, first: usize) {
        let (adj, m) = graph(mask, first);
        let (k0, t0) = any_kind();
        let (k1, t1) = any_kind();
        let (k2, t2) = any_kind();
        let kinds = [t0, t1, t2];
        let tc = TypeChecker {
            references: RefGraph { references: m },
            type_info: TypeInfo { scope_graph: ScopeGraph { decls: [k0, k1, k2, DeclarationKind::Function(None)] } },
        };
        let reach = closure(&adj);
        let mut cyclic_constant = false;
        let mut context_constant = false;
        let mut c = 0;
        while c < N {
            if kinds[c] == 1 {
                let mut o = 0;
                while o < N {
                    if (o == c && adj[c][c]) || (o != c && reach[c][o] && reach[o][c]) {
                        cyclic_constant = true;
                    }
                    if kinds[o] == 2 && reach[c][o] {
                        context_constant = true;
                    }
                    o += 1;
                }
            }
            c += 1;
        }
        let res = tc.find_compilation_order();
        match &res {
            Err(TypeError::RecursiveConstant(i)) => {
                assert!(cyclic_constant && kinds[*i as usize] == 1, "OBL:C14.order.recursive_constant_error_only_for_a_constant_in_a_cycle");
            }
            Err(TypeError::ConstantUsesContext(i)) => {
                assert!(!cyclic_constant && context_constant && kinds[*i as usize] == 1, "OBL:C14.order.context_error_only_for_a_constant_reaching_context");
            }
            Ok(order) => {
                assert!(!cyclic_constant, "OBL:C14.order.constant_in_a_cycle_is_rejected");
                assert!(!context_constant, "OBL:C14.order.constant_reaching_context_is_rejected");
                assert!(order.len() == N, "OBL:C14.order.every_item_is_ordered_exactly_once");
                let mut u = 0;
                while u < N {
                    let mut v = 0;
                    while v < N {
                        if u != v && adj[u][v] && !reach[v][u] {
                            let mut pu = N;
                            let mut pv = N;
                            let mut i = 0;
                            while i < N {
                                if order[i] == ResolvedName(u as u8) {
                                    pu = i;
                                }
                                if order[i] == ResolvedName(v as u8) {
                                    pv = i;
                                }
                                i += 1;
                            }
                            assert!(pu < N && pv < N && pv < pu, "OBL:C14.order.dependencies_are_generated_first");
                        }
                        v += 1;
                    }
                    u += 1;
                }
            }
        }
        kani::cover!(kinds[0] == 1, "COV:C14.order.constant_present");
    }
    /// A constant that reaches a context variable only THROUGH A CYCLE of functions is rejected,
    /// whatever the identifiers' order: f <-> g, f -> ctx, K -> g (4 items, concrete; the memo of
    /// the depth-first search must not keep an answer computed while the cycle was still open).
    fn check_context_through_cycle(f: u8, g: u8, k: u8, c: u8) {
        let mut m = BTreeMap::new();
        let mut i = 0u8;
        while i < 4 {
            let mut s = BTreeSet::new();
            if i == f {
                s.insert(ResolvedName(g));
                s.insert(ResolvedName(c));
            } else if i == g {
                s.insert(ResolvedName(f));
            } else if i == k {
                s.insert(ResolvedName(g));
            }
            m.insert(ResolvedName(i), s);
            i += 1;
        }
        let mut decls = [DeclarationKind::Function(None); 4];
        decls[k as usize] = DeclarationKind::Value(crate::typechecker::scope::ValueKind::Constant, None);
        decls[c as usize] = DeclarationKind::Value(crate::typechecker::scope::ValueKind::Context(0), None);
        let tc = TypeChecker { references: RefGraph { references: m }, type_info: TypeInfo { scope_graph: ScopeGraph { decls } } };
        let res = tc.context_check();
        assert!(matches!(res, Err(TypeError::ConstantUsesContext(i)) if i == k), "OBL:C14.context.constant_reaching_context_through_a_function_cycle_is_rejected");
        let res2 = tc.find_compilation_order();
        assert!(res2.is_err(), "OBL:C14.order.constant_reaching_context_is_rejected");
        kani::cover!(true, "COV:C14.context.cycle_case_reached");
    }
    macro_rules! context_cycle_case {
        ($($name:ident = ($f:expr, $g:expr, $k:expr, $c:expr)),*) => {$(
            #[kani::proof]
            #[kani::unwind(8)]
            fn $name() { check_context_through_cycle($f, $g, $k, $c); }
        )*};
    }
    context_cycle_case!(c14_u2_context_cycle_fgkc = (0, 1, 2, 3), c14_u2_context_cycle_fgck = (0, 1, 3, 2),
        c14_u2_context_cycle_kfgc = (1, 2, 0, 3), c14_u2_context_cycle_gfkc = (1, 0, 2, 3),
        c14_u2_context_cycle_cfgk = (1, 2, 3, 0), c14_u2_context_cycle_fkgc = (0, 2, 1, 3));

    macro_rules! order_case {
        ($name:ident, $mask:expr, $first:expr) => {
            #[kani::proof]
            #[kani::unwind(7)]
            fn $name() {
                check_order($mask, $first);
            }
        };
    }
    order_case!(c14_u2_order_g000, 0, 0);
    order_case!(c14_u2_order_g002, 2, 1);
    order_case!(c14_u2_order_g004, 4, 2);
    order_case!(c14_u2_order_g006, 6, 0);
    order_case!(c14_u2_order_g008, 8, 1);
    order_case!(c14_u2_order_g00a, 10, 2);
    order_case!(c14_u2_order_g00c, 12, 0);
    order_case!(c14_u2_order_g00e, 14, 1);
    order_case!(c14_u2_order_g020, 32, 2);
    order_case!(c14_u2_order_g022, 34, 0);
    order_case!(c14_u2_order_g024, 36, 1);
    order_case!(c14_u2_order_g026, 38, 2);
    order_case!(c14_u2_order_g028, 40, 0);
    order_case!(c14_u2_order_g02a, 42, 1);
    order_case!(c14_u2_order_g02c, 44, 2);
    order_case!(c14_u2_order_g02e, 46, 0);
    order_case!(c14_u2_order_g040, 64, 1);
    order_case!(c14_u2_order_g042, 66, 2);
    order_case!(c14_u2_order_g044, 68, 0);
    order_case!(c14_u2_order_g046, 70, 1);
    order_case!(c14_u2_order_g048, 72, 2);
    order_case!(c14_u2_order_g04a, 74, 0);
    order_case!(c14_u2_order_g04c, 76, 1);
    order_case!(c14_u2_order_g04e, 78, 2);
    order_case!(c14_u2_order_g060, 96, 0);
    order_case!(c14_u2_order_g062, 98, 1);
    order_case!(c14_u2_order_g064, 100, 2);
    order_case!(c14_u2_order_g066, 102, 0);
    order_case!(c14_u2_order_g068, 104, 1);
    order_case!(c14_u2_order_g06a, 106, 2);
    order_case!(c14_u2_order_g06c, 108, 0);
    order_case!(c14_u2_order_g06e, 110, 1);
    order_case!(c14_u2_order_g080, 128, 2);
    order_case!(c14_u2_order_g082, 130, 0);
    order_case!(c14_u2_order_g084, 132, 1);
    order_case!(c14_u2_order_g086, 134, 2);
    order_case!(c14_u2_order_g088, 136, 0);
    order_case!(c14_u2_order_g08a, 138, 1);
    order_case!(c14_u2_order_g08c, 140, 2);
    order_case!(c14_u2_order_g08e, 142, 0);
    order_case!(c14_u2_order_g0a0, 160, 1);
    order_case!(c14_u2_order_g0a2, 162, 2);
    order_case!(c14_u2_order_g0a4, 164, 0);
    order_case!(c14_u2_order_g0a6, 166, 1);
    order_case!(c14_u2_order_g0a8, 168, 2);
    order_case!(c14_u2_order_g0aa, 170, 0);
    order_case!(c14_u2_order_g0ac, 172, 1);
    order_case!(c14_u2_order_g0ae, 174, 2);
    order_case!(c14_u2_order_g0c0, 192, 0);
    order_case!(c14_u2_order_g0c2, 194, 1);
    order_case!(c14_u2_order_g0c4, 196, 2);
    order_case!(c14_u2_order_g0c6, 198, 0);
    order_case!(c14_u2_order_g0c8, 200, 1);
    order_case!(c14_u2_order_g0ca, 202, 2);
    order_case!(c14_u2_order_g0cc, 204, 0);
    order_case!(c14_u2_order_g0ce, 206, 1);
    order_case!(c14_u2_order_g0e0, 224, 2);
    order_case!(c14_u2_order_g0e2, 226, 0);
    order_case!(c14_u2_order_g0e4, 228, 1);
    order_case!(c14_u2_order_g0e6, 230, 2);
    order_case!(c14_u2_order_g0e8, 232, 0);
    order_case!(c14_u2_order_g0ea, 234, 1);
    order_case!(c14_u2_order_g0ec, 236, 2);
    order_case!(c14_u2_order_g0ee, 238, 0);
    order_case!(c14_u2_order_g001, 1, 0);
    order_case!(c14_u2_order_g010, 16, 1);
    order_case!(c14_u2_order_g100, 256, 2);
    order_case!(c14_u2_order_g063, 99, 0);
    order_case!(c14_u2_order_g072, 114, 1);
    order_case!(c14_u2_order_g162, 354, 2);
    order_case!(c14_u2_order_g003, 3, 0);
    order_case!(c14_u2_order_g005, 5, 2);
    order_case!(c14_u2_order_g007, 7, 1);
    order_case!(c14_u2_order_g009, 9, 0);
    order_case!(c14_u2_order_g00b, 11, 2);
    order_case!(c14_u2_order_g00d, 13, 1);
    order_case!(c14_u2_order_g00f, 15, 0);
    order_case!(c14_u2_order_g011, 17, 2);
    order_case!(c14_u2_order_g012, 18, 0);
    order_case!(c14_u2_order_g013, 19, 1);
    order_case!(c14_u2_order_g014, 20, 2);
    order_case!(c14_u2_order_g015, 21, 0);
    order_case!(c14_u2_order_g016, 22, 1);
    order_case!(c14_u2_order_g017, 23, 2);
    order_case!(c14_u2_order_g018, 24, 0);
    order_case!(c14_u2_order_g019, 25, 1);
    order_case!(c14_u2_order_g01a, 26, 2);
    order_case!(c14_u2_order_g01b, 27, 0);
    order_case!(c14_u2_order_g01c, 28, 1);
    order_case!(c14_u2_order_g01d, 29, 2);
    order_case!(c14_u2_order_g01e, 30, 0);
    order_case!(c14_u2_order_g01f, 31, 1);
    order_case!(c14_u2_order_g021, 33, 0);
    order_case!(c14_u2_order_g023, 35, 2);
    order_case!(c14_u2_order_g025, 37, 1);
    order_case!(c14_u2_order_g027, 39, 0);
    order_case!(c14_u2_order_g029, 41, 2);
    order_case!(c14_u2_order_g02b, 43, 1);
    order_case!(c14_u2_order_g02d, 45, 0);
    order_case!(c14_u2_order_g02f, 47, 2);
    order_case!(c14_u2_order_g030, 48, 0);
    order_case!(c14_u2_order_g031, 49, 1);
    order_case!(c14_u2_order_g032, 50, 2);
    order_case!(c14_u2_order_g033, 51, 0);
    order_case!(c14_u2_order_g034, 52, 1);
    order_case!(c14_u2_order_g035, 53, 2);
    order_case!(c14_u2_order_g036, 54, 0);
    order_case!(c14_u2_order_g037, 55, 1);
    order_case!(c14_u2_order_g038, 56, 2);
    order_case!(c14_u2_order_g039, 57, 0);
    order_case!(c14_u2_order_g03a, 58, 1);
    order_case!(c14_u2_order_g03b, 59, 2);
    order_case!(c14_u2_order_g03c, 60, 0);
    order_case!(c14_u2_order_g03d, 61, 1);
    order_case!(c14_u2_order_g03e, 62, 2);
    order_case!(c14_u2_order_g03f, 63, 0);
    order_case!(c14_u2_order_g041, 65, 2);
    order_case!(c14_u2_order_g043, 67, 1);
    order_case!(c14_u2_order_g045, 69, 0);
    order_case!(c14_u2_order_g047, 71, 2);
    order_case!(c14_u2_order_g049, 73, 1);
    order_case!(c14_u2_order_g04b, 75, 0);
    order_case!(c14_u2_order_g04d, 77, 2);
    order_case!(c14_u2_order_g04f, 79, 1);
    order_case!(c14_u2_order_g050, 80, 2);
    order_case!(c14_u2_order_g051, 81, 0);
    order_case!(c14_u2_order_g052, 82, 1);
    order_case!(c14_u2_order_g053, 83, 2);
    order_case!(c14_u2_order_g054, 84, 0);
    order_case!(c14_u2_order_g055, 85, 1);
    order_case!(c14_u2_order_g056, 86, 2);
    order_case!(c14_u2_order_g057, 87, 0);
    order_case!(c14_u2_order_g058, 88, 1);
    order_case!(c14_u2_order_g059, 89, 2);
    order_case!(c14_u2_order_g05a, 90, 0);
    order_case!(c14_u2_order_g05b, 91, 1);
    order_case!(c14_u2_order_g05c, 92, 2);
    order_case!(c14_u2_order_g05d, 93, 0);
    order_case!(c14_u2_order_g05e, 94, 1);
    order_case!(c14_u2_order_g05f, 95, 2);
    order_case!(c14_u2_order_g061, 97, 1);
    order_case!(c14_u2_order_g065, 101, 2);
    order_case!(c14_u2_order_g067, 103, 1);
    order_case!(c14_u2_order_g069, 105, 0);
    order_case!(c14_u2_order_g06b, 107, 2);
    order_case!(c14_u2_order_g06d, 109, 1);
    order_case!(c14_u2_order_g06f, 111, 0);
    order_case!(c14_u2_order_g070, 112, 1);
    order_case!(c14_u2_order_g071, 113, 2);
    order_case!(c14_u2_order_g073, 115, 1);
    order_case!(c14_u2_order_g074, 116, 2);
    order_case!(c14_u2_order_g075, 117, 0);
    order_case!(c14_u2_order_g076, 118, 1);
    order_case!(c14_u2_order_g077, 119, 2);
    order_case!(c14_u2_order_g078, 120, 0);
    order_case!(c14_u2_order_g079, 121, 1);
    order_case!(c14_u2_order_g07a, 122, 2);
    order_case!(c14_u2_order_g07b, 123, 0);
    order_case!(c14_u2_order_g07c, 124, 1);
    order_case!(c14_u2_order_g07d, 125, 2);
    order_case!(c14_u2_order_g07e, 126, 0);
    order_case!(c14_u2_order_g07f, 127, 1);
    order_case!(c14_u2_order_g081, 129, 0);
    order_case!(c14_u2_order_g083, 131, 2);
    order_case!(c14_u2_order_g085, 133, 1);
    order_case!(c14_u2_order_g087, 135, 0);
    order_case!(c14_u2_order_g089, 137, 2);
    order_case!(c14_u2_order_g08b, 139, 1);
    order_case!(c14_u2_order_g08d, 141, 0);
    order_case!(c14_u2_order_g08f, 143, 2);
    order_case!(c14_u2_order_g090, 144, 0);
    order_case!(c14_u2_order_g091, 145, 1);
    order_case!(c14_u2_order_g092, 146, 2);
    order_case!(c14_u2_order_g093, 147, 0);
    order_case!(c14_u2_order_g094, 148, 1);
    order_case!(c14_u2_order_g095, 149, 2);
    order_case!(c14_u2_order_g096, 150, 0);
    order_case!(c14_u2_order_g097, 151, 1);
    order_case!(c14_u2_order_g098, 152, 2);
    order_case!(c14_u2_order_g099, 153, 0);
    order_case!(c14_u2_order_g09a, 154, 1);
    order_case!(c14_u2_order_g09b, 155, 2);
    order_case!(c14_u2_order_g09c, 156, 0);
    order_case!(c14_u2_order_g09d, 157, 1);
    order_case!(c14_u2_order_g09e, 158, 2);
    order_case!(c14_u2_order_g09f, 159, 0);
    order_case!(c14_u2_order_g0a1, 161, 2);
    order_case!(c14_u2_order_g0a3, 163, 1);
    order_case!(c14_u2_order_g0a5, 165, 0);
    order_case!(c14_u2_order_g0a7, 167, 2);
    order_case!(c14_u2_order_g0a9, 169, 1);
    order_case!(c14_u2_order_g0ab, 171, 0);
    order_case!(c14_u2_order_g0ad, 173, 2);
    order_case!(c14_u2_order_g0af, 175, 1);
    order_case!(c14_u2_order_g0b0, 176, 2);
    order_case!(c14_u2_order_g0b1, 177, 0);
    order_case!(c14_u2_order_g0b2, 178, 1);
    order_case!(c14_u2_order_g0b3, 179, 2);
    order_case!(c14_u2_order_g0b4, 180, 0);
    order_case!(c14_u2_order_g0b5, 181, 1);
    order_case!(c14_u2_order_g0b6, 182, 2);
    order_case!(c14_u2_order_g0b7, 183, 0);
    order_case!(c14_u2_order_g0b8, 184, 1);
    order_case!(c14_u2_order_g0b9, 185, 2);
    order_case!(c14_u2_order_g0ba, 186, 0);
    order_case!(c14_u2_order_g0bb, 187, 1);
    order_case!(c14_u2_order_g0bc, 188, 2);
    order_case!(c14_u2_order_g0bd, 189, 0);
    order_case!(c14_u2_order_g0be, 190, 1);
    order_case!(c14_u2_order_g0bf, 191, 2);
    order_case!(c14_u2_order_g0c1, 193, 1);
    order_case!(c14_u2_order_g0c3, 195, 0);
    order_case!(c14_u2_order_g0c5, 197, 2);
    order_case!(c14_u2_order_g0c7, 199, 1);
    order_case!(c14_u2_order_g0c9, 201, 0);
    order_case!(c14_u2_order_g0cb, 203, 2);
    order_case!(c14_u2_order_g0cd, 205, 1);
    order_case!(c14_u2_order_g0cf, 207, 0);
    order_case!(c14_u2_order_g0d0, 208, 1);
    order_case!(c14_u2_order_g0d1, 209, 2);
    order_case!(c14_u2_order_g0d2, 210, 0);
    order_case!(c14_u2_order_g0d3, 211, 1);
    order_case!(c14_u2_order_g0d4, 212, 2);
    order_case!(c14_u2_order_g0d5, 213, 0);
    order_case!(c14_u2_order_g0d6, 214, 1);
    order_case!(c14_u2_order_g0d7, 215, 2);
    order_case!(c14_u2_order_g0d8, 216, 0);
    order_case!(c14_u2_order_g0d9, 217, 1);
    order_case!(c14_u2_order_g0da, 218, 2);
    order_case!(c14_u2_order_g0db, 219, 0);
    order_case!(c14_u2_order_g0dc, 220, 1);
    order_case!(c14_u2_order_g0dd, 221, 2);
    order_case!(c14_u2_order_g0de, 222, 0);
    order_case!(c14_u2_order_g0df, 223, 1);
    order_case!(c14_u2_order_g0e1, 225, 0);
    order_case!(c14_u2_order_g0e3, 227, 2);
    order_case!(c14_u2_order_g0e5, 229, 1);
    order_case!(c14_u2_order_g0e7, 231, 0);
    order_case!(c14_u2_order_g0e9, 233, 2);
    order_case!(c14_u2_order_g0eb, 235, 1);
    order_case!(c14_u2_order_g0ed, 237, 0);
    order_case!(c14_u2_order_g0ef, 239, 2);
    order_case!(c14_u2_order_g0f0, 240, 0);
    order_case!(c14_u2_order_g0f1, 241, 1);
    order_case!(c14_u2_order_g0f2, 242, 2);
    order_case!(c14_u2_order_g0f3, 243, 0);
    order_case!(c14_u2_order_g0f4, 244, 1);
    order_case!(c14_u2_order_g0f5, 245, 2);
    order_case!(c14_u2_order_g0f6, 246, 0);
    order_case!(c14_u2_order_g0f7, 247, 1);
    order_case!(c14_u2_order_g0f8, 248, 2);
    order_case!(c14_u2_order_g0f9, 249, 0);
    order_case!(c14_u2_order_g0fa, 250, 1);
    order_case!(c14_u2_order_g0fb, 251, 2);
    order_case!(c14_u2_order_g0fc, 252, 0);
    order_case!(c14_u2_order_g0fd, 253, 1);
    order_case!(c14_u2_order_g0fe, 254, 2);
    order_case!(c14_u2_order_g0ff, 255, 0);
    order_case!(c14_u2_order_g101, 257, 2);
    order_case!(c14_u2_order_g102, 258, 0);
    order_case!(c14_u2_order_g103, 259, 1);
    order_case!(c14_u2_order_g104, 260, 2);
    order_case!(c14_u2_order_g105, 261, 0);
    order_case!(c14_u2_order_g106, 262, 1);
    order_case!(c14_u2_order_g107, 263, 2);
    order_case!(c14_u2_order_g108, 264, 0);
    order_case!(c14_u2_order_g109, 265, 1);
    order_case!(c14_u2_order_g10a, 266, 2);
    order_case!(c14_u2_order_g10b, 267, 0);
    order_case!(c14_u2_order_g10c, 268, 1);
    order_case!(c14_u2_order_g10d, 269, 2);
    order_case!(c14_u2_order_g10e, 270, 0);
    order_case!(c14_u2_order_g10f, 271, 1);
    order_case!(c14_u2_order_g110, 272, 2);
    order_case!(c14_u2_order_g111, 273, 0);
    order_case!(c14_u2_order_g112, 274, 1);
    order_case!(c14_u2_order_g113, 275, 2);
    order_case!(c14_u2_order_g114, 276, 0);
    order_case!(c14_u2_order_g115, 277, 1);
    order_case!(c14_u2_order_g116, 278, 2);
    order_case!(c14_u2_order_g117, 279, 0);
    order_case!(c14_u2_order_g118, 280, 1);
    order_case!(c14_u2_order_g119, 281, 2);
    order_case!(c14_u2_order_g11a, 282, 0);
    order_case!(c14_u2_order_g11b, 283, 1);
    order_case!(c14_u2_order_g11c, 284, 2);
    order_case!(c14_u2_order_g11d, 285, 0);
    order_case!(c14_u2_order_g11e, 286, 1);
    order_case!(c14_u2_order_g11f, 287, 2);
    order_case!(c14_u2_order_g120, 288, 0);
    order_case!(c14_u2_order_g121, 289, 1);
    order_case!(c14_u2_order_g122, 290, 2);
    order_case!(c14_u2_order_g123, 291, 0);
    order_case!(c14_u2_order_g124, 292, 1);
    order_case!(c14_u2_order_g125, 293, 2);
    order_case!(c14_u2_order_g126, 294, 0);
    order_case!(c14_u2_order_g127, 295, 1);
    order_case!(c14_u2_order_g128, 296, 2);
    order_case!(c14_u2_order_g129, 297, 0);
    order_case!(c14_u2_order_g12a, 298, 1);
    order_case!(c14_u2_order_g12b, 299, 2);
    order_case!(c14_u2_order_g12c, 300, 0);
    order_case!(c14_u2_order_g12d, 301, 1);
    order_case!(c14_u2_order_g12e, 302, 2);
    order_case!(c14_u2_order_g12f, 303, 0);
    order_case!(c14_u2_order_g130, 304, 1);
    order_case!(c14_u2_order_g131, 305, 2);
    order_case!(c14_u2_order_g132, 306, 0);
    order_case!(c14_u2_order_g133, 307, 1);
    order_case!(c14_u2_order_g134, 308, 2);
    order_case!(c14_u2_order_g135, 309, 0);
    order_case!(c14_u2_order_g136, 310, 1);
    order_case!(c14_u2_order_g137, 311, 2);
    order_case!(c14_u2_order_g138, 312, 0);
    order_case!(c14_u2_order_g139, 313, 1);
    order_case!(c14_u2_order_g13a, 314, 2);
    order_case!(c14_u2_order_g13b, 315, 0);
    order_case!(c14_u2_order_g13c, 316, 1);
    order_case!(c14_u2_order_g13d, 317, 2);
    order_case!(c14_u2_order_g13e, 318, 0);
    order_case!(c14_u2_order_g13f, 319, 1);
    order_case!(c14_u2_order_g140, 320, 2);
    order_case!(c14_u2_order_g141, 321, 0);
    order_case!(c14_u2_order_g142, 322, 1);
    order_case!(c14_u2_order_g143, 323, 2);
    order_case!(c14_u2_order_g144, 324, 0);
    order_case!(c14_u2_order_g145, 325, 1);
    order_case!(c14_u2_order_g146, 326, 2);
    order_case!(c14_u2_order_g147, 327, 0);
    order_case!(c14_u2_order_g148, 328, 1);
    order_case!(c14_u2_order_g149, 329, 2);
    order_case!(c14_u2_order_g14a, 330, 0);
    order_case!(c14_u2_order_g14b, 331, 1);
    order_case!(c14_u2_order_g14c, 332, 2);
    order_case!(c14_u2_order_g14d, 333, 0);
    order_case!(c14_u2_order_g14e, 334, 1);
    order_case!(c14_u2_order_g14f, 335, 2);
    order_case!(c14_u2_order_g150, 336, 0);
    order_case!(c14_u2_order_g151, 337, 1);
    order_case!(c14_u2_order_g152, 338, 2);
    order_case!(c14_u2_order_g153, 339, 0);
    order_case!(c14_u2_order_g154, 340, 1);
    order_case!(c14_u2_order_g155, 341, 2);
    order_case!(c14_u2_order_g156, 342, 0);
    order_case!(c14_u2_order_g157, 343, 1);
    order_case!(c14_u2_order_g158, 344, 2);
    order_case!(c14_u2_order_g159, 345, 0);
    order_case!(c14_u2_order_g15a, 346, 1);
    order_case!(c14_u2_order_g15b, 347, 2);
    order_case!(c14_u2_order_g15c, 348, 0);
    order_case!(c14_u2_order_g15d, 349, 1);
    order_case!(c14_u2_order_g15e, 350, 2);
    order_case!(c14_u2_order_g15f, 351, 0);
    order_case!(c14_u2_order_g160, 352, 1);
    order_case!(c14_u2_order_g161, 353, 2);
    order_case!(c14_u2_order_g163, 355, 1);
    order_case!(c14_u2_order_g164, 356, 2);
    order_case!(c14_u2_order_g165, 357, 0);
    order_case!(c14_u2_order_g166, 358, 1);
    order_case!(c14_u2_order_g167, 359, 2);
    order_case!(c14_u2_order_g168, 360, 0);
    order_case!(c14_u2_order_g169, 361, 1);
    order_case!(c14_u2_order_g16a, 362, 2);
    order_case!(c14_u2_order_g16b, 363, 0);
    order_case!(c14_u2_order_g16c, 364, 1);
    order_case!(c14_u2_order_g16d, 365, 2);
    order_case!(c14_u2_order_g16e, 366, 0);
    order_case!(c14_u2_order_g16f, 367, 1);
    order_case!(c14_u2_order_g170, 368, 2);
    order_case!(c14_u2_order_g171, 369, 0);
    order_case!(c14_u2_order_g172, 370, 1);
    order_case!(c14_u2_order_g173, 371, 2);
    order_case!(c14_u2_order_g174, 372, 0);
    order_case!(c14_u2_order_g175, 373, 1);
    order_case!(c14_u2_order_g176, 374, 2);
    order_case!(c14_u2_order_g177, 375, 0);
    order_case!(c14_u2_order_g178, 376, 1);
    order_case!(c14_u2_order_g179, 377, 2);
    order_case!(c14_u2_order_g17a, 378, 0);
    order_case!(c14_u2_order_g17b, 379, 1);
    order_case!(c14_u2_order_g17c, 380, 2);
    order_case!(c14_u2_order_g17d, 381, 0);
    order_case!(c14_u2_order_g17e, 382, 1);
    order_case!(c14_u2_order_g17f, 383, 2);
    order_case!(c14_u2_order_g180, 384, 0);
    order_case!(c14_u2_order_g181, 385, 1);
    order_case!(c14_u2_order_g182, 386, 2);
    order_case!(c14_u2_order_g183, 387, 0);
    order_case!(c14_u2_order_g184, 388, 1);
    order_case!(c14_u2_order_g185, 389, 2);
    order_case!(c14_u2_order_g186, 390, 0);
    order_case!(c14_u2_order_g187, 391, 1);
    order_case!(c14_u2_order_g188, 392, 2);
    order_case!(c14_u2_order_g189, 393, 0);
    order_case!(c14_u2_order_g18a, 394, 1);
    order_case!(c14_u2_order_g18b, 395, 2);
    order_case!(c14_u2_order_g18c, 396, 0);
    order_case!(c14_u2_order_g18d, 397, 1);
    order_case!(c14_u2_order_g18e, 398, 2);
    order_case!(c14_u2_order_g18f, 399, 0);
    order_case!(c14_u2_order_g190, 400, 1);
    order_case!(c14_u2_order_g191, 401, 2);
    order_case!(c14_u2_order_g192, 402, 0);
    order_case!(c14_u2_order_g193, 403, 1);
    order_case!(c14_u2_order_g194, 404, 2);
    order_case!(c14_u2_order_g195, 405, 0);
    order_case!(c14_u2_order_g196, 406, 1);
    order_case!(c14_u2_order_g197, 407, 2);
    order_case!(c14_u2_order_g198, 408, 0);
    order_case!(c14_u2_order_g199, 409, 1);
    order_case!(c14_u2_order_g19a, 410, 2);
    order_case!(c14_u2_order_g19b, 411, 0);
    order_case!(c14_u2_order_g19c, 412, 1);
    order_case!(c14_u2_order_g19d, 413, 2);
    order_case!(c14_u2_order_g19e, 414, 0);
    order_case!(c14_u2_order_g19f, 415, 1);
    order_case!(c14_u2_order_g1a0, 416, 2);
    order_case!(c14_u2_order_g1a1, 417, 0);
    order_case!(c14_u2_order_g1a2, 418, 1);
    order_case!(c14_u2_order_g1a3, 419, 2);
    order_case!(c14_u2_order_g1a4, 420, 0);
    order_case!(c14_u2_order_g1a5, 421, 1);
    order_case!(c14_u2_order_g1a6, 422, 2);
    order_case!(c14_u2_order_g1a7, 423, 0);
    order_case!(c14_u2_order_g1a8, 424, 1);
    order_case!(c14_u2_order_g1a9, 425, 2);
    order_case!(c14_u2_order_g1aa, 426, 0);
    order_case!(c14_u2_order_g1ab, 427, 1);
    order_case!(c14_u2_order_g1ac, 428, 2);
    order_case!(c14_u2_order_g1ad, 429, 0);
    order_case!(c14_u2_order_g1ae, 430, 1);
    order_case!(c14_u2_order_g1af, 431, 2);
    order_case!(c14_u2_order_g1b0, 432, 0);
    order_case!(c14_u2_order_g1b1, 433, 1);
    order_case!(c14_u2_order_g1b2, 434, 2);
    order_case!(c14_u2_order_g1b3, 435, 0);
    order_case!(c14_u2_order_g1b4, 436, 1);
    order_case!(c14_u2_order_g1b5, 437, 2);
    order_case!(c14_u2_order_g1b6, 438, 0);
    order_case!(c14_u2_order_g1b7, 439, 1);
    order_case!(c14_u2_order_g1b8, 440, 2);
    order_case!(c14_u2_order_g1b9, 441, 0);
    order_case!(c14_u2_order_g1ba, 442, 1);
    order_case!(c14_u2_order_g1bb, 443, 2);
    order_case!(c14_u2_order_g1bc, 444, 0);
    order_case!(c14_u2_order_g1bd, 445, 1);
    order_case!(c14_u2_order_g1be, 446, 2);
    order_case!(c14_u2_order_g1bf, 447, 0);
    order_case!(c14_u2_order_g1c0, 448, 1);
    order_case!(c14_u2_order_g1c1, 449, 2);
    order_case!(c14_u2_order_g1c2, 450, 0);
    order_case!(c14_u2_order_g1c3, 451, 1);
    order_case!(c14_u2_order_g1c4, 452, 2);
    order_case!(c14_u2_order_g1c5, 453, 0);
    order_case!(c14_u2_order_g1c6, 454, 1);
    order_case!(c14_u2_order_g1c7, 455, 2);
    order_case!(c14_u2_order_g1c8, 456, 0);
    order_case!(c14_u2_order_g1c9, 457, 1);
    order_case!(c14_u2_order_g1ca, 458, 2);
    order_case!(c14_u2_order_g1cb, 459, 0);
    order_case!(c14_u2_order_g1cc, 460, 1);
    order_case!(c14_u2_order_g1cd, 461, 2);
    order_case!(c14_u2_order_g1ce, 462, 0);
    order_case!(c14_u2_order_g1cf, 463, 1);
    order_case!(c14_u2_order_g1d0, 464, 2);
    order_case!(c14_u2_order_g1d1, 465, 0);
    order_case!(c14_u2_order_g1d2, 466, 1);
    order_case!(c14_u2_order_g1d3, 467, 2);
    order_case!(c14_u2_order_g1d4, 468, 0);
    order_case!(c14_u2_order_g1d5, 469, 1);
    order_case!(c14_u2_order_g1d6, 470, 2);
    order_case!(c14_u2_order_g1d7, 471, 0);
    order_case!(c14_u2_order_g1d8, 472, 1);
    order_case!(c14_u2_order_g1d9, 473, 2);
    order_case!(c14_u2_order_g1da, 474, 0);
    order_case!(c14_u2_order_g1db, 475, 1);
    order_case!(c14_u2_order_g1dc, 476, 2);
    order_case!(c14_u2_order_g1dd, 477, 0);
    order_case!(c14_u2_order_g1de, 478, 1);
    order_case!(c14_u2_order_g1df, 479, 2);
    order_case!(c14_u2_order_g1e0, 480, 0);
    order_case!(c14_u2_order_g1e1, 481, 1);
    order_case!(c14_u2_order_g1e2, 482, 2);
    order_case!(c14_u2_order_g1e3, 483, 0);
    order_case!(c14_u2_order_g1e4, 484, 1);
    order_case!(c14_u2_order_g1e5, 485, 2);
    order_case!(c14_u2_order_g1e6, 486, 0);
    order_case!(c14_u2_order_g1e7, 487, 1);
    order_case!(c14_u2_order_g1e8, 488, 2);
    order_case!(c14_u2_order_g1e9, 489, 0);
    order_case!(c14_u2_order_g1ea, 490, 1);
    order_case!(c14_u2_order_g1eb, 491, 2);
    order_case!(c14_u2_order_g1ec, 492, 0);
    order_case!(c14_u2_order_g1ed, 493, 1);
    order_case!(c14_u2_order_g1ee, 494, 2);
    order_case!(c14_u2_order_g1ef, 495, 0);
    order_case!(c14_u2_order_g1f0, 496, 1);
    order_case!(c14_u2_order_g1f1, 497, 2);
    order_case!(c14_u2_order_g1f2, 498, 0);
    order_case!(c14_u2_order_g1f3, 499, 1);
    order_case!(c14_u2_order_g1f4, 500, 2);
    order_case!(c14_u2_order_g1f5, 501, 0);
    order_case!(c14_u2_order_g1f6, 502, 1);
    order_case!(c14_u2_order_g1f7, 503, 2);
    order_case!(c14_u2_order_g1f8, 504, 0);
    order_case!(c14_u2_order_g1f9, 505, 1);
    order_case!(c14_u2_order_g1fa, 506, 2);
    order_case!(c14_u2_order_g1fb, 507, 0);
    order_case!(c14_u2_order_g1fc, 508, 1);
    order_case!(c14_u2_order_g1fd, 509, 2);
    order_case!(c14_u2_order_g1fe, 510, 0);
    order_case!(c14_u2_order_g1ff, 511, 1);
}
