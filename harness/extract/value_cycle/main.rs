// K-ex unit `value_cycle` — assembled on every run by /verif/check.
// Text that replaced a fragment marker is verbatim source of /repo/src/typechecker/value_cycle.rs.
#![allow(dead_code, unused_imports, unused_variables, unused_mut)]

/// sorted array-backed stand-ins for std::collections::{BTreeMap, BTreeSet}
pub mod coll {
    pub const CAP: usize = 4;

    /// array-backed stand-in for std::vec::Vec (capacity VCAP, no heap): the unit only pushes, pops,
    /// searches and iterates small vectors
    pub const VCAP: usize = 4;
    #[derive(Clone, Debug)]
    pub struct Vec<T> {
        pub items: [Option<T>; VCAP],
        pub n: usize,
    }
    impl<T> Vec<T> {
        pub fn new() -> Self {
            Vec { items: [const { None }; VCAP], n: 0 }
        }
        pub fn len(&self) -> usize {
            self.n
        }
        pub fn push(&mut self, t: T) {
            assert!(self.n < VCAP, "shim: vec full");
            self.items[self.n] = Some(t);
            self.n += 1;
        }
        pub fn pop(&mut self) -> Option<T> {
            if self.n == 0 {
                None
            } else {
                self.n -= 1;
                self.items[self.n].take()
            }
        }
    }
    impl<T: PartialEq> Vec<T> {
        pub fn contains(&self, t: &T) -> bool {
            let mut i = 0;
            while i < VCAP {
                if i < self.n {
                    if let Some(x) = &self.items[i] {
                        if *x == *t {
                            return true;
                        }
                    }
                }
                i += 1;
            }
            false
        }
    }
    impl<T> core::ops::Index<usize> for Vec<T> {
        type Output = T;
        fn index(&self, i: usize) -> &T {
            assert!(i < self.n, "shim: vec index out of bounds");
            self.items[i].as_ref().unwrap()
        }
    }
    pub struct VecIntoIter<T> {
        v: Vec<T>,
        i: usize,
    }
    impl<T> Iterator for VecIntoIter<T> {
        type Item = T;
        fn next(&mut self) -> Option<T> {
            if self.i < self.v.n {
                let r = self.v.items[self.i].take();
                self.i += 1;
                r
            } else {
                None
            }
        }
    }
    impl<T> IntoIterator for Vec<T> {
        type Item = T;
        type IntoIter = VecIntoIter<T>;
        fn into_iter(self) -> VecIntoIter<T> {
            VecIntoIter { v: self, i: 0 }
        }
    }
    pub struct VecIter<'a, T> {
        v: &'a Vec<T>,
        i: usize,
    }
    impl<'a, T> Iterator for VecIter<'a, T> {
        type Item = &'a T;
        fn next(&mut self) -> Option<&'a T> {
            if self.i < self.v.n {
                let r = self.v.items[self.i].as_ref();
                self.i += 1;
                r
            } else {
                None
            }
        }
    }
    impl<'a, T> IntoIterator for &'a Vec<T> {
        type Item = &'a T;
        type IntoIter = VecIter<'a, T>;
        fn into_iter(self) -> VecIter<'a, T> {
            VecIter { v: self, i: 0 }
        }
    }
    impl<T> core::iter::FromIterator<T> for Vec<T> {
        fn from_iter<I: IntoIterator<Item = T>>(it: I) -> Self {
            let mut v = Vec::new();
            for x in it {
                v.push(x);
            }
            v
        }
    }

    #[derive(Clone, Debug)]
    pub struct BTreeSet<K> {
        pub items: [Option<K>; CAP],
        pub n: usize,
    }
    impl<K: Copy + Ord> BTreeSet<K> {
        pub fn new() -> Self {
            BTreeSet { items: [None; CAP], n: 0 }
        }
        pub fn contains(&self, k: &K) -> bool {
            let mut i = 0;
            while i < CAP {
                if i < self.n && self.items[i] == Some(*k) {
                    return true;
                }
                i += 1;
            }
            false
        }
        /// keeps the elements sorted (iteration order of a BTreeSet)
        pub fn insert(&mut self, k: K) -> bool {
            if self.contains(&k) {
                return false;
            }
            assert!(self.n < CAP, "shim: set full");
            let mut pos = self.n;
            let mut i = 0;
            while i < CAP {
                if i < self.n && pos == self.n {
                    if let Some(x) = self.items[i] {
                        if k < x {
                            pos = i;
                        }
                    }
                }
                i += 1;
            }
            let mut j = CAP - 1;
            while j > 0 {
                if j > pos && j <= self.n {
                    self.items[j] = self.items[j - 1];
                }
                j -= 1;
            }
            self.items[pos] = Some(k);
            self.n += 1;
            true
        }
    }
    pub struct SetIter<'a, K> {
        s: &'a BTreeSet<K>,
        i: usize,
    }
    impl<'a, K> Iterator for SetIter<'a, K> {
        type Item = &'a K;
        fn next(&mut self) -> Option<&'a K> {
            if self.i < self.s.n {
                let r = self.s.items[self.i].as_ref();
                self.i += 1;
                r
            } else {
                None
            }
        }
    }
    impl<'a, K> IntoIterator for &'a BTreeSet<K> {
        type Item = &'a K;
        type IntoIter = SetIter<'a, K>;
        fn into_iter(self) -> SetIter<'a, K> {
            SetIter { s: self, i: 0 }
        }
    }

    #[derive(Clone, Debug)]
    pub struct BTreeMap<K, V> {
        pub keys: [Option<K>; CAP],
        pub vals: [Option<V>; CAP],
        pub n: usize,
    }
    impl<K: Copy + Ord, V> BTreeMap<K, V> {
        pub fn new() -> Self {
            BTreeMap { keys: [None; CAP], vals: [const { None }; CAP], n: 0 }
        }
        fn find(&self, k: &K) -> Option<usize> {
            let mut i = 0;
            while i < CAP {
                if i < self.n && self.keys[i] == Some(*k) {
                    return Some(i);
                }
                i += 1;
            }
            None
        }
        pub fn contains_key(&self, k: &K) -> bool {
            self.find(k).is_some()
        }
        pub fn get(&self, k: &K) -> Option<&V> {
            match self.find(k) {
                Some(i) => self.vals[i].as_ref(),
                None => None,
            }
        }
        pub fn get_mut(&mut self, k: &K) -> Option<&mut V> {
            match self.find(k) {
                Some(i) => self.vals[i].as_mut(),
                None => None,
            }
        }
        /// keeps the keys sorted (iteration order of a BTreeMap)
        pub fn insert(&mut self, k: K, v: V) -> Option<V> {
            if let Some(i) = self.find(&k) {
                return self.vals[i].replace(v);
            }
            assert!(self.n < CAP, "shim: map full");
            let mut pos = self.n;
            let mut i = 0;
            while i < CAP {
                if i < self.n && pos == self.n {
                    if let Some(x) = self.keys[i] {
                        if k < x {
                            pos = i;
                        }
                    }
                }
                i += 1;
            }
            let mut j = CAP - 1;
            while j > 0 {
                if j > pos && j <= self.n {
                    self.keys[j] = self.keys[j - 1];
                    self.vals[j] = self.vals[j - 1].take();
                }
                j -= 1;
            }
            self.keys[pos] = Some(k);
            self.vals[pos] = Some(v);
            self.n += 1;
            None
        }
        pub fn keys(&self) -> KeyIter<'_, K, V> {
            KeyIter { m: self, i: 0 }
        }
    }
    impl<K: Copy + Ord, V> core::ops::Index<&K> for BTreeMap<K, V> {
        type Output = V;
        fn index(&self, k: &K) -> &V {
            self.get(k).expect("shim: no entry for key")
        }
    }
    pub struct KeyIter<'a, K, V> {
        m: &'a BTreeMap<K, V>,
        i: usize,
    }
    impl<'a, K, V> Iterator for KeyIter<'a, K, V> {
        type Item = &'a K;
        fn next(&mut self) -> Option<&'a K> {
            if self.i < self.m.n {
                let r = self.m.keys[self.i].as_ref();
                self.i += 1;
                r
            } else {
                None
            }
        }
    }
    pub struct MapIter<'a, K, V> {
        m: &'a BTreeMap<K, V>,
        i: usize,
    }
    impl<'a, K, V> Iterator for MapIter<'a, K, V> {
        type Item = (&'a K, &'a V);
        fn next(&mut self) -> Option<(&'a K, &'a V)> {
            if self.i < self.m.n {
                let r = match (self.m.keys[self.i].as_ref(), self.m.vals[self.i].as_ref()) {
                    (Some(k), Some(v)) => Some((k, v)),
                    _ => None,
                };
                self.i += 1;
                r
            } else {
                None
            }
        }
    }
    impl<'a, K, V> IntoIterator for &'a BTreeMap<K, V> {
        type Item = (&'a K, &'a V);
        type IntoIter = MapIter<'a, K, V>;
        fn into_iter(self) -> MapIter<'a, K, V> {
            MapIter { m: self, i: 0 }
        }
    }
}

pub mod typechecker {
    /// the unit's error type: which rule fired, for which item
    #[derive(Clone, Copy, Debug, PartialEq, Eq)]
    pub enum TypeError {
        RecursiveConstant(u8),
        ConstantUsesContext(u8),
    }
    pub type TypeResult<T> = Result<T, TypeError>;

    pub mod scope {
        /// shim: an item name is a small integer
        #[derive(Clone, Copy, Debug, PartialEq, Eq, PartialOrd, Ord, Hash)]
        pub struct ResolvedName(pub u8);
        #[derive(Clone, Copy, Debug, PartialEq, Eq)]
        pub struct Name {
            pub ident: u8,
        }
        #[derive(Clone, Copy, Debug, PartialEq, Eq)]
        pub enum ValueKind {
            Local,
            Constant,
            Context(usize),
        }
        #[derive(Clone, Copy, Debug, PartialEq, Eq)]
        pub enum DeclarationKind {
            Value(ValueKind, Option<()>),
            Function(Option<()>),
        }
        #[derive(Clone, Copy, Debug, PartialEq, Eq)]
        pub struct Declaration {
            pub name: Name,
            pub kind: DeclarationKind,
            pub id: u8,
        }
        pub struct ScopeGraph {
            pub decls: [DeclarationKind; 4],
        }
        impl ScopeGraph {
            pub fn get_declaration(&self, name: ResolvedName) -> Declaration {
                Declaration { name: Name { ident: name.0 }, kind: self.decls[name.0 as usize], id: name.0 }
            }
        }
    }

    pub struct TypeInfo {
        pub scope_graph: scope::ScopeGraph,
    }
    pub struct TypeChecker {
        pub references: value_cycle::RefGraph,
        pub type_info: TypeInfo,
    }
    impl TypeChecker {
        fn error_recursive_constant(&self, ident: u8, _id: u8) -> TypeError {
            TypeError::RecursiveConstant(ident)
        }
        fn error_constant_uses_context(&self, ident: u8, _id: u8) -> TypeError {
            TypeError::ConstantUsesContext(ident)
        }
    }

    pub mod value_cycle {
        use crate::coll::{BTreeMap, BTreeSet, Vec};
        use crate::typechecker::scope::ValueKind;
        use crate::typechecker::{TypeChecker, TypeResult};
        use std::hash::Hash;

        use super::scope::ResolvedName;

        // the whole `impl TypeChecker` block of value_cycle.rs (so helper methods added by a
        // refactoring are part of the unit)
        /*@IMPL_TYPECHECKER@*/

        /*@STRUCT_REFGRAPH@*/

        /*@STRUCT_STATE@*/

        /*@STRUCT_VERTEXSTATE@*/

        /*@FN_TARJAN@*/

        /*@FN_STRONGLY_CONNECT@*/

        /*@IMPL_STATE@*/

        include!("harness.rs");
    }
}

fn main() {}
