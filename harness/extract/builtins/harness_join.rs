// Contract (C15 "contains, join and == agree with Vec", C10 "every built-in returns a value on every
// argument of its domain"): join(list, sep) is the elements of the list, in order, with exactly one
// separator between each two neighbours - none before the first, none after the last, empty elements
// included - and it returns (does not panic) for every list, the empty one included.
#[cfg(kani)]
mod h {
    use super::*;

    fn case(elems: &[&str], sep: &str, expect: &str) {
        let l = ErasedList(elems.iter().map(|s| RotoString::from(*s)).collect());
        let r = join(l, RotoString::from(sep));
        assert!(&*r == expect, "OBL:C15.builtin.join_is_the_elements_in_order_with_one_separator_between_neighbours");
        kani::cover!(true, "COV:C15.builtin.join_reached");
    }
    macro_rules! join_case {
        ($($name:ident = ($e:expr, $s:expr, $x:expr)),*) => {$(
            #[kani::proof]
            #[kani::unwind(8)]
            fn $name() { let e: &[&str] = &$e; case(e, $s, $x); }
        )*};
    }
    join_case!(
        c15_u5_join_empty_list = ([], ",", ""),
        c15_u5_join_empty_list_empty_sep = ([], "", ""),
        c15_u5_join_one = (["a"], ",", "a"),
        c15_u5_join_one_empty = ([""], ",", ""),
        c15_u5_join_two = (["a", "b"], ",", "a,b"),
        c15_u5_join_leading_empty = (["", "a"], ",", ",a"),
        c15_u5_join_trailing_empty = (["a", ""], ",", "a,"),
        c15_u5_join_all_empty = (["", ""], "-", "-"),
        c15_u5_join_empty_sep = (["a", "b"], "", "ab"),
        c15_u5_join_long_sep = (["a", "b"], "--", "a--b")
    );

    #[kani::proof]
    #[kani::unwind(8)]
    fn canary_c15_u5_join() {
        let l = ErasedList(vec![RotoString::from("a"), RotoString::from("b")]);
        let r = join(l, RotoString::from(","));
        assert!(&*r != "a,b", "CANARY:C15.builtin.join_wrong");
    }
}
