// Contract (C10): "every built-in function or method on every argument in its parameter types'
// domain returns a value (or the documented None) instead of ... panicking across the
// foreign-function boundary".
mod h {
    use super::*;
    use std::net::{Ipv4Addr, Ipv6Addr};

    /// Prefix.new(ip, len) for every address and every length that fits the address family
    #[kani::proof]
    fn c10_u3_prefix_new_valid() {
        let v4: bool = kani::any();
        let ip = if v4 { IpAddr::V4(Ipv4Addr::from(kani::any::<u32>())) } else { IpAddr::V6(Ipv6Addr::from(kani::any::<u128>())) };
        let len: u8 = kani::any();
        kani::assume(len <= if v4 { 32 } else { 128 });
        let p = new(ip, len);
        assert!(p.len() == len, "OBL:C10.builtin.prefix_new.valid_length_returns_prefix_of_that_length");
        kani::cover!(!v4 && len == 128, "COV:C10.builtin.prefix_new.v6_len128_reached");
    }

    /// Prefix.new(ip, len) for EVERY u8 length: the parameter type's domain. The obligation is the
    /// implicit one (no panic); it fails on the pinned tree for len > 32 / > 128 (known finding).
    #[kani::proof]
    fn c10_u3_prefix_new_any_length() {
        let v4: bool = kani::any();
        let ip = if v4 { IpAddr::V4(Ipv4Addr::from(kani::any::<u32>())) } else { IpAddr::V6(Ipv6Addr::from(kani::any::<u128>())) };
        let len: u8 = kani::any();
        let p = new(ip, len);
        assert!(p.len() <= 128, "OBL:C10.builtin.prefix_new.result_is_a_prefix");
        kani::cover!(v4 && len == 33, "COV:C10.builtin.prefix_new.v4_len33_reached");
    }
}
