// Contract (C10 / C17 slice): the byte- and line-indexed string views never panic, for every
// valid UTF-8 string up to N bytes and every index; `get` gives the character that starts at that
// byte offset and None for out-of-range or mid-code-point positions.
mod h {
    use super::*;

    fn any_str<const N: usize>() -> &'static str {
        let buf: &'static mut [u8; N] = Box::leak(Box::new(kani::any()));
        let len: usize = kani::any();
        kani::assume(len <= N);
        match core::str::from_utf8(&buf[..len]) {
            Ok(s) => s,
            Err(_) => {
                kani::assume(false);
                ""
            }
        }
    }

    fn spec_get(s: &str, idx: usize) -> Option<char> {
        if idx < s.len() && s.is_char_boundary(idx) { s[idx..].chars().next() } else { None }
    }

    #[kani::proof]
    #[kani::unwind(6)]
    fn c10_u3_string_bytes_get_n3() {
        let s = any_str::<3>();
        let idx: usize = kani::any();
        let v = StringBytes(StringData(s));
        let got = v.get(idx);
        assert!(got == spec_get(s, idx), "OBL:C10.builtin.string_bytes_get.char_at_boundary_else_none");
        assert!(v.len() == s.len(), "OBL:C10.builtin.string_bytes_len.is_byte_length");
        kani::cover!(!s.is_ascii() && idx == 1, "COV:C10.builtin.string_bytes_get.mid_code_point_reached");
        kani::cover!(got.is_some() && idx == 2, "COV:C10.builtin.string_bytes_get.some_reached");
    }

    #[kani::proof]
    #[kani::unwind(6)]
    fn c10_u3_string_lines_get_n3() {
        let s = any_str::<3>();
        let idx: usize = kani::any();
        let v = StringLines(StringData(s));
        let _ = v.get(idx);
        assert!(true, "OBL:C10.builtin.string_lines_get.returns");
        kani::cover!(!s.is_ascii() && idx == 1, "COV:C10.builtin.string_lines_get.mid_code_point_reached");
    }

    #[kani::proof]
    #[kani::unwind(6)]
    fn c10_u3_string_chars_get_n3() {
        let s = any_str::<3>();
        let idx: usize = kani::any();
        let v = StringChars(StringData(s));
        let got = v.get(idx);
        assert!(got.is_some() == (idx < s.chars().count()), "OBL:C10.builtin.string_chars_get.some_iff_in_range");
        kani::cover!(got.is_some() && idx == 1 && !s.is_ascii(), "COV:C10.builtin.string_chars_get.second_char_reached");
    }
}
