// K-ex unit `builtins` — assembled on every run by /verif/check.
// Text that replaced a fragment marker is verbatim source of /repo.
#![allow(dead_code, unused_imports, unused_variables, unused_mut)]

pub mod runtime {
    pub mod basic {
        use inetnum::addr::Prefix;
        use std::net::IpAddr;

        /// the body of the built-in `Prefix.new`, cut out of the library! block
        /*@FN_PREFIX_NEW@*/

        include!("harness.rs");
    }
}

pub mod value {
    pub mod string {
        /// shim: the real field is an Arc<str>; the views only read it
        pub struct StringData(pub &'static str);

        /*@IMPL_STRINGDATA@*/

        pub struct StringBytes(pub StringData);
        pub struct StringLines(pub StringData);
        pub struct StringChars(pub StringData);

        impl StringBytes {
            /*@FN_BYTES_LEN@*/

            /*@FN_BYTES_GET@*/
        }
        impl StringLines {
            /*@FN_LINES_GET@*/
        }
        impl StringChars {
            /*@FN_CHARS_GET@*/
        }

        include!("harness_str.rs");
    }
}

fn main() {}
