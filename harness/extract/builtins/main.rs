// K-ex unit `builtins` — assembled on every run by /verif/check.
// Text that replaced a fragment marker is verbatim source of /repo.
#![allow(dead_code, unused_imports, unused_variables, unused_mut)]

pub mod runtime {
    pub mod basic {
        use inetnum::addr::Prefix;
        use std::net::IpAddr;

        /// the body of the built-in `Prefix.new`, cut out of the library! block
        /*@FN_PREFIX_NEW@*/

        include!("harness.rs");
    }
}

pub mod value {
    pub mod string {
        /// shim: the real field is an Arc<str>; the views only read it
        pub struct StringData(pub &'static str);

        /*@IMPL_STRINGDATA@*/

        pub struct StringBytes(pub StringData);
        pub struct StringLines(pub StringData);
        pub struct StringChars(pub StringData);

        impl StringBytes {
            /*@FN_BYTES_LEN@*/

            /*@FN_BYTES_GET@*/
        }
        impl StringLines {
            /*@FN_LINES_GET@*/
        }
        impl StringChars {
            /*@FN_CHARS_GET@*/
        }

        include!("harness_str.rs");
    }
}

pub mod list_join {
    //! the body of the built-in `List[String].join`, cut out of the library! block
    use std::borrow::Borrow;
    use std::marker::PhantomData;
    use std::ops::Deref;

    #[derive(Clone, Debug, PartialEq, Eq)]
    pub struct RotoString(pub String);
    impl Borrow<str> for RotoString {
        fn borrow(&self) -> &str {
            &self.0
        }
    }
    impl Deref for RotoString {
        type Target = str;
        fn deref(&self) -> &str {
            &self.0
        }
    }
    impl From<String> for RotoString {
        fn from(s: String) -> Self {
            RotoString(s)
        }
    }
    impl From<&str> for RotoString {
        fn from(s: &str) -> Self {
            RotoString(s.to_string())
        }
    }
    pub struct ErasedList(pub Vec<RotoString>);
    #[repr(transparent)]
    pub struct List<T>(pub ErasedList, pub PhantomData<T>);
    impl List<RotoString> {
        pub fn to_vec(&self) -> Vec<RotoString> {
            self.0 .0.clone()
        }
        pub fn len(&self) -> usize {
            self.0 .0.len()
        }
        pub fn is_empty(&self) -> bool {
            self.0 .0.is_empty()
        }
        pub fn iter(&self) -> std::vec::IntoIter<RotoString> {
            self.0 .0.clone().into_iter()
        }
    }

    impl IntoIterator for List<RotoString> {
        type Item = RotoString;
        type IntoIter = std::vec::IntoIter<RotoString>;
        fn into_iter(self) -> Self::IntoIter {
            self.0 .0.into_iter()
        }
    }
    impl<'a> IntoIterator for &'a List<RotoString> {
        type Item = RotoString;
        type IntoIter = std::vec::IntoIter<RotoString>;
        fn into_iter(self) -> Self::IntoIter {
            self.0 .0.clone().into_iter()
        }
    }

    /*@FN_LIST_JOIN@*/

    include!("harness_join.rs");
}

fn main() {}
