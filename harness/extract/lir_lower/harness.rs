// Contracts on the real text of lir::lower::Lowerer / mir::Pool:
//   C01-U5 binop, C01-U6 literal, C02-K1 offsets, C02-K2 by-reference vs by-value, C05-U2 enum mirrors.
mod h {
    use super::*;
    use crate::mir::Pool;
    use crate::runtime::RuntimeType;
    use crate::value::{option::RotoOption, result::RotoResult, verdict::Verdict};

    // ------------------------------------------------------------------ environment
    pub const ASN: usize = 14;
    pub const CHAR: usize = 15;
    pub const IPADDR: usize = 16;
    pub const PREFIX: usize = 17;
    pub const LIST: usize = 18;
    pub const RUNTIME: usize = 19;

    /// pool with the well-known types at the indices of the TyRef constants, then the other primitives
    fn base_pool() -> Pool {
        use FloatSize::*;
        use IntKind::*;
        use IntSize::*;
        let mut p = Pool { types: [const { Ty::Unit }; 32], n: 0, callee: [(0, 1, true); 32] };
        p.push(Ty::Unit);
        p.push(Ty::Never);
        p.push(Ty::Primitive(Primitive::Bool));
        p.push(Ty::Primitive(Primitive::Int(Unsigned, I8)));
        p.push(Ty::Primitive(Primitive::Int(Unsigned, I16)));
        p.push(Ty::Primitive(Primitive::Int(Unsigned, I32)));
        p.push(Ty::Primitive(Primitive::Int(Unsigned, I64)));
        p.push(Ty::Primitive(Primitive::Int(Signed, I8)));
        p.push(Ty::Primitive(Primitive::Int(Signed, I16)));
        p.push(Ty::Primitive(Primitive::Int(Signed, I32)));
        p.push(Ty::Primitive(Primitive::Int(Signed, I64)));
        p.push(Ty::Primitive(Primitive::Float(F32)));
        p.push(Ty::Primitive(Primitive::Float(F64)));
        p.push(Ty::Primitive(Primitive::String));
        p.push(Ty::Primitive(Primitive::Asn));
        p.push(Ty::Primitive(Primitive::Char));
        p.push(Ty::Primitive(Primitive::IpAddr));
        p.push(Ty::Primitive(Primitive::Prefix));
        let u8t = TyRef::U8;
        p.push(Ty::List(u8t));
        p.push(Ty::Runtime(std::any::TypeId::of::<u64>()));
        // callee contract: documented C layouts of the types a field can have
        let ptr = core::mem::size_of::<usize>();
        let z = (0usize, 1usize, true);
        p.callee = [
            (0, 1, true), (0, 1, false), (1, 1, true),
            (1, 1, true), (2, 2, true), (4, 4, true), (8, 8, true),
            (1, 1, true), (2, 2, true), (4, 4, true), (8, 8, true),
            (4, 4, true), (8, 8, true),
            (core::mem::size_of::<crate::RotoString>(), core::mem::align_of::<crate::RotoString>(), true),
            (4, 4, true), (4, 4, true),
            (core::mem::size_of::<std::net::IpAddr>(), core::mem::align_of::<std::net::IpAddr>(), true),
            (core::mem::size_of::<inetnum::addr::Prefix>(), core::mem::align_of::<inetnum::addr::Prefix>(), true),
            (ptr, ptr, true), (24, 8, true),
            z, z, z, z, z, z, z, z, z, z, z, z,
        ];
        p
    }

    fn well_known(k: usize) -> TyRef {
        match k {
            0 => TyRef::UNIT,
            1 => TyRef::NEVER,
            2 => TyRef::BOOL,
            3 => TyRef::U8,
            4 => TyRef::U16,
            5 => TyRef::U32,
            6 => TyRef::U64,
            7 => TyRef::I8,
            8 => TyRef::I16,
            9 => TyRef::I32,
            10 => TyRef::I64,
            11 => TyRef::F32,
            12 => TyRef::F64,
            _ => TyRef::STRING,
        }
    }

    fn rt() -> Rt {
        let id = std::any::TypeId::of::<u64>();
        Rt {
            types: [
                (id, RuntimeType { layout: Layout::new(24, 8) }),
                (id, RuntimeType { layout: Layout::new(24, 8) }),
                (id, RuntimeType { layout: Layout::new(24, 8) }),
                (id, RuntimeType { layout: Layout::new(24, 8) }),
            ],
        }
    }

    fn lowerer<'c, 'r>(ctx: &'c mut LowerCtx<'r>) -> Lowerer<'c, 'r> {
        Lowerer {
            ctx,
            blocks: vec![Block { label: LabelRef(0), instructions: Vec::new() }],
            function_scope: ScopeRef(1),
            tmp_idx: 7,
            return_type: TyRef::UNIT,
            force_reference_return: false,
            variables: Vec::new(),
            calls: Vec::new(),
            needs_drop_answer: true,
        }
    }

    fn mvar(i: usize) -> mir::Var {
        mir::Var { scope: ScopeRef(1), kind: mir::VarKind::Tmp(i) }
    }
    fn lvar(i: usize) -> Var {
        Var { scope: ScopeRef(1), kind: VarKind::Tmp(i) }
    }
    fn is_place(o: &Operand, i: usize) -> bool {
        matches!(o, Operand::Place(v) if *v == lvar(i))
    }

    fn any_binop() -> ast::BinOp {
        let k: u8 = kani::any();
        kani::assume(k < 13);
        match k {
            0 => ast::BinOp::And,
            1 => ast::BinOp::Or,
            2 => ast::BinOp::Eq,
            3 => ast::BinOp::Ne,
            4 => ast::BinOp::Lt,
            5 => ast::BinOp::Le,
            6 => ast::BinOp::Gt,
            7 => ast::BinOp::Ge,
            8 => ast::BinOp::Add,
            9 => ast::BinOp::Sub,
            10 => ast::BinOp::Mul,
            11 => ast::BinOp::Div,
            _ => ast::BinOp::Mod,
        }
    }

    fn sem_intcmp(c: &IntCmp, a: u64, b: u64) -> bool {
        let (sa, sb) = (a as i64, b as i64);
        match c {
            IntCmp::Eq => a == b,
            IntCmp::Ne => a != b,
            IntCmp::ULt => a < b,
            IntCmp::ULe => a <= b,
            IntCmp::UGt => a > b,
            IntCmp::UGe => a >= b,
            IntCmp::SLt => sa < sb,
            IntCmp::SLe => sa <= sb,
            IntCmp::SGt => sa > sb,
            IntCmp::SGe => sa >= sb,
        }
    }
    fn lang_cmp(op: ast::BinOp, signed: bool, a: u64, b: u64) -> bool {
        let ord = if signed { (a as i64).cmp(&(b as i64)) } else { a.cmp(&b) };
        use std::cmp::Ordering::*;
        match op {
            ast::BinOp::Lt => ord == Less,
            ast::BinOp::Le => ord != Greater,
            ast::BinOp::Gt => ord == Greater,
            _ => ord != Less,
        }
    }

    /// the IR type the language assigns to an integer type: same width, same signedness
    fn want_irtype(k: usize) -> IrType {
        match k {
            3 => IrType::U8,
            4 => IrType::U16,
            5 => IrType::U32,
            6 => IrType::U64,
            7 => IrType::I8,
            8 => IrType::I16,
            9 => IrType::I32,
            10 => IrType::I64,
            11 => IrType::F32,
            _ => IrType::F64,
        }
    }

    // ------------------------------------------------------------------ C01-U5: binop
    /// For one integer type and every arithmetic / ordering operator: exactly one instruction,
    /// of the kind the operator names, signed iff the type is signed, operands on their sides,
    /// result in a fresh temporary of the operand type (Bool for comparisons).
    macro_rules! binop_int {
        ($name:ident, $k:expr, $op:expr) => {
            #[kani::proof]
            #[kani::unwind(34)]
            fn $name() {
                let mut ti = TypeInfo { ty_pool: base_pool() };
                let r = rt();
                let mut ctx = LowerCtx { runtime: &r, type_info: &mut ti };
                let mut l = lowerer(&mut ctx);
                let k: usize = $k;
                let signed = k >= 7;
                let op: ast::BinOp = $op;
                let res = l.binop(mvar(3), op, well_known(k), mvar(5));
                assert!(l.blocks.len() == 1 && l.blocks[0].instructions.len() == 1 && l.calls.is_empty(), "OBL:C01.lir.binop.int_emits_exactly_one_instruction");
                assert!(matches!(&res, Operand::Place(v) if *v == lvar(7)) && l.tmp_idx == 8, "OBL:C01.lir.binop.result_is_the_fresh_temporary");
                let ins = &l.blocks[0].instructions[0];
                let ok = match (op, ins) {
                    (ast::BinOp::Add, Instruction::Add { to, left, right }) => *to == lvar(7) && is_place(left, 3) && is_place(right, 5),
                    (ast::BinOp::Sub, Instruction::Sub { to, left, right }) => *to == lvar(7) && is_place(left, 3) && is_place(right, 5),
                    (ast::BinOp::Mul, Instruction::Mul { to, left, right }) => *to == lvar(7) && is_place(left, 3) && is_place(right, 5),
                    (ast::BinOp::Div, Instruction::Div { to, signed: s, left, right }) => *to == lvar(7) && *s == signed && is_place(left, 3) && is_place(right, 5),
                    (ast::BinOp::Mod, Instruction::Mod { to, signed: s, left, right }) => *to == lvar(7) && *s == signed && is_place(left, 3) && is_place(right, 5),
                    (ast::BinOp::Lt | ast::BinOp::Le | ast::BinOp::Gt | ast::BinOp::Ge, Instruction::IntCmp { to, cmp, left, right }) => {
                        // the comparison is the one binop_to_int_cmp assigns to (operator, signedness of the
                        // type); that this one *means* the operator on all operand pairs is C01-U1
                        let want = binop_to_int_cmp(&op, if signed { IntKind::Signed } else { IntKind::Unsigned }).unwrap();
                        *to == lvar(7) && is_place(left, 3) && is_place(right, 5) && core::mem::discriminant(cmp) == core::mem::discriminant(&want)
                    }
                    _ => false,
                };
                assert!(ok, "OBL:C01.lir.binop.int_instruction_kind_signedness_and_operand_sides");
                let is_cmp = matches!(op, ast::BinOp::Lt | ast::BinOp::Le | ast::BinOp::Gt | ast::BinOp::Ge);
                let decl_ok = l.variables.len() == 1
                    && l.variables[0].0 == lvar(7)
                    && matches!(&l.variables[0].1, ValueOrSlot::Val(t) if *t == if is_cmp { IrType::Bool } else { want_irtype(k) });
                assert!(decl_ok, "OBL:C01.lir.binop.int_temporary_has_width_and_signedness_of_the_type");
                kani::cover!(true, "COV:C01.lir.binop.case_reached");
            }
        };
    }
    binop_int!(c01_u5_binop_u8_lt, 3, ast::BinOp::Lt);
    binop_int!(c01_u5_binop_u8_le, 3, ast::BinOp::Le);
    binop_int!(c01_u5_binop_u8_gt, 3, ast::BinOp::Gt);
    binop_int!(c01_u5_binop_u8_ge, 3, ast::BinOp::Ge);
    binop_int!(c01_u5_binop_u8_add, 3, ast::BinOp::Add);
    binop_int!(c01_u5_binop_u8_sub, 3, ast::BinOp::Sub);
    binop_int!(c01_u5_binop_u8_mul, 3, ast::BinOp::Mul);
    binop_int!(c01_u5_binop_u8_div, 3, ast::BinOp::Div);
    binop_int!(c01_u5_binop_u8_mod, 3, ast::BinOp::Mod);
    binop_int!(c01_u5_binop_u16_lt, 4, ast::BinOp::Lt);
    binop_int!(c01_u5_binop_u16_le, 4, ast::BinOp::Le);
    binop_int!(c01_u5_binop_u16_gt, 4, ast::BinOp::Gt);
    binop_int!(c01_u5_binop_u16_ge, 4, ast::BinOp::Ge);
    binop_int!(c01_u5_binop_u16_add, 4, ast::BinOp::Add);
    binop_int!(c01_u5_binop_u16_sub, 4, ast::BinOp::Sub);
    binop_int!(c01_u5_binop_u16_mul, 4, ast::BinOp::Mul);
    binop_int!(c01_u5_binop_u16_div, 4, ast::BinOp::Div);
    binop_int!(c01_u5_binop_u16_mod, 4, ast::BinOp::Mod);
    binop_int!(c01_u5_binop_u32_lt, 5, ast::BinOp::Lt);
    binop_int!(c01_u5_binop_u32_le, 5, ast::BinOp::Le);
    binop_int!(c01_u5_binop_u32_gt, 5, ast::BinOp::Gt);
    binop_int!(c01_u5_binop_u32_ge, 5, ast::BinOp::Ge);
    binop_int!(c01_u5_binop_u32_add, 5, ast::BinOp::Add);
    binop_int!(c01_u5_binop_u32_sub, 5, ast::BinOp::Sub);
    binop_int!(c01_u5_binop_u32_mul, 5, ast::BinOp::Mul);
    binop_int!(c01_u5_binop_u32_div, 5, ast::BinOp::Div);
    binop_int!(c01_u5_binop_u32_mod, 5, ast::BinOp::Mod);
    binop_int!(c01_u5_binop_u64_lt, 6, ast::BinOp::Lt);
    binop_int!(c01_u5_binop_u64_le, 6, ast::BinOp::Le);
    binop_int!(c01_u5_binop_u64_gt, 6, ast::BinOp::Gt);
    binop_int!(c01_u5_binop_u64_ge, 6, ast::BinOp::Ge);
    binop_int!(c01_u5_binop_u64_add, 6, ast::BinOp::Add);
    binop_int!(c01_u5_binop_u64_sub, 6, ast::BinOp::Sub);
    binop_int!(c01_u5_binop_u64_mul, 6, ast::BinOp::Mul);
    binop_int!(c01_u5_binop_u64_div, 6, ast::BinOp::Div);
    binop_int!(c01_u5_binop_u64_mod, 6, ast::BinOp::Mod);
    binop_int!(c01_u5_binop_i8_lt, 7, ast::BinOp::Lt);
    binop_int!(c01_u5_binop_i8_le, 7, ast::BinOp::Le);
    binop_int!(c01_u5_binop_i8_gt, 7, ast::BinOp::Gt);
    binop_int!(c01_u5_binop_i8_ge, 7, ast::BinOp::Ge);
    binop_int!(c01_u5_binop_i8_add, 7, ast::BinOp::Add);
    binop_int!(c01_u5_binop_i8_sub, 7, ast::BinOp::Sub);
    binop_int!(c01_u5_binop_i8_mul, 7, ast::BinOp::Mul);
    binop_int!(c01_u5_binop_i8_div, 7, ast::BinOp::Div);
    binop_int!(c01_u5_binop_i8_mod, 7, ast::BinOp::Mod);
    binop_int!(c01_u5_binop_i16_lt, 8, ast::BinOp::Lt);
    binop_int!(c01_u5_binop_i16_le, 8, ast::BinOp::Le);
    binop_int!(c01_u5_binop_i16_gt, 8, ast::BinOp::Gt);
    binop_int!(c01_u5_binop_i16_ge, 8, ast::BinOp::Ge);
    binop_int!(c01_u5_binop_i16_add, 8, ast::BinOp::Add);
    binop_int!(c01_u5_binop_i16_sub, 8, ast::BinOp::Sub);
    binop_int!(c01_u5_binop_i16_mul, 8, ast::BinOp::Mul);
    binop_int!(c01_u5_binop_i16_div, 8, ast::BinOp::Div);
    binop_int!(c01_u5_binop_i16_mod, 8, ast::BinOp::Mod);
    binop_int!(c01_u5_binop_i32_lt, 9, ast::BinOp::Lt);
    binop_int!(c01_u5_binop_i32_le, 9, ast::BinOp::Le);
    binop_int!(c01_u5_binop_i32_gt, 9, ast::BinOp::Gt);
    binop_int!(c01_u5_binop_i32_ge, 9, ast::BinOp::Ge);
    binop_int!(c01_u5_binop_i32_add, 9, ast::BinOp::Add);
    binop_int!(c01_u5_binop_i32_sub, 9, ast::BinOp::Sub);
    binop_int!(c01_u5_binop_i32_mul, 9, ast::BinOp::Mul);
    binop_int!(c01_u5_binop_i32_div, 9, ast::BinOp::Div);
    binop_int!(c01_u5_binop_i32_mod, 9, ast::BinOp::Mod);
    binop_int!(c01_u5_binop_i64_lt, 10, ast::BinOp::Lt);
    binop_int!(c01_u5_binop_i64_le, 10, ast::BinOp::Le);
    binop_int!(c01_u5_binop_i64_gt, 10, ast::BinOp::Gt);
    binop_int!(c01_u5_binop_i64_ge, 10, ast::BinOp::Ge);
    binop_int!(c01_u5_binop_i64_add, 10, ast::BinOp::Add);
    binop_int!(c01_u5_binop_i64_sub, 10, ast::BinOp::Sub);
    binop_int!(c01_u5_binop_i64_mul, 10, ast::BinOp::Mul);
    binop_int!(c01_u5_binop_i64_div, 10, ast::BinOp::Div);
    binop_int!(c01_u5_binop_i64_mod, 10, ast::BinOp::Mod);

    /// == and != on integers go to the equality lowering with the right polarity and sides.
    macro_rules! binop_eq_ne {
        ($name:ident, $ne:expr) => {
    #[kani::proof]
    #[kani::unwind(34)]
    fn $name() {
        let mut ti = TypeInfo { ty_pool: base_pool() };
        let r = rt();
        let mut ctx = LowerCtx { runtime: &r, type_info: &mut ti };
        let mut l = lowerer(&mut ctx);
        let k: usize = 9; // i32 (the dispatch to call_eq_of happens before the type is looked at)
        let ne: bool = $ne;
        let op = if ne { ast::BinOp::Ne } else { ast::BinOp::Eq };
        let _ = l.binop(mvar(3), op, well_known(k), mvar(5));
        let want = Call::EqOf { negate: ne, left: Operand2::Place(lvar(3)), right: Operand2::Place(lvar(5)), ty: well_known(k) };
        assert!(l.calls.len() == 1 && l.calls[0] == want && l.blocks[0].instructions.is_empty(), "OBL:C01.lir.binop.eq_ne_delegates_with_polarity_and_sides");
        kani::cover!(true, "COV:C01.lir.binop.eq_ne_reached");
    }
        };
    }
    binop_eq_ne!(c01_u5_binop_eq, false);
    binop_eq_ne!(c01_u5_binop_ne, true);

    /// floats: + - * keep their instruction (the code generator picks the float opcode from the
    /// operand type), / becomes FDiv, orderings become the same-named IEEE comparison.
    macro_rules! binop_float {
        ($name:ident, $k:expr, $op:expr) => {
    #[kani::proof]
    #[kani::unwind(34)]
    fn $name() {
        let mut ti = TypeInfo { ty_pool: base_pool() };
        let r = rt();
        let mut ctx = LowerCtx { runtime: &r, type_info: &mut ti };
        let mut l = lowerer(&mut ctx);
        let k: usize = $k;
        let op: ast::BinOp = $op;
        let res = l.binop(mvar(3), op, well_known(k), mvar(5));
        assert!(l.blocks[0].instructions.len() == 1 && matches!(&res, Operand::Place(v) if *v == lvar(7)), "OBL:C01.lir.binop.float_emits_one_instruction_into_fresh_temporary");
        let ins = &l.blocks[0].instructions[0];
        let ok = match (op, ins) {
            (ast::BinOp::Add, Instruction::Add { to, left, right }) => *to == lvar(7) && is_place(left, 3) && is_place(right, 5),
            (ast::BinOp::Sub, Instruction::Sub { to, left, right }) => *to == lvar(7) && is_place(left, 3) && is_place(right, 5),
            (ast::BinOp::Mul, Instruction::Mul { to, left, right }) => *to == lvar(7) && is_place(left, 3) && is_place(right, 5),
            (ast::BinOp::Div, Instruction::FDiv { to, left, right }) => *to == lvar(7) && is_place(left, 3) && is_place(right, 5),
            (ast::BinOp::Lt, Instruction::FloatCmp { to, cmp: FloatCmp::Lt, left, right }) => *to == lvar(7) && is_place(left, 3) && is_place(right, 5),
            (ast::BinOp::Le, Instruction::FloatCmp { to, cmp: FloatCmp::Le, left, right }) => *to == lvar(7) && is_place(left, 3) && is_place(right, 5),
            (ast::BinOp::Gt, Instruction::FloatCmp { to, cmp: FloatCmp::Gt, left, right }) => *to == lvar(7) && is_place(left, 3) && is_place(right, 5),
            (ast::BinOp::Ge, Instruction::FloatCmp { to, cmp: FloatCmp::Ge, left, right }) => *to == lvar(7) && is_place(left, 3) && is_place(right, 5),
            _ => false,
        };
        assert!(ok, "OBL:C01.lir.binop.float_instruction_kind_and_operand_sides");
        let is_cmp = matches!(ins, Instruction::FloatCmp { .. });
        assert!(matches!(&l.variables[0].1, ValueOrSlot::Val(t) if *t == if is_cmp { IrType::Bool } else { want_irtype(k) }), "OBL:C01.lir.binop.float_temporary_type");
        kani::cover!(true, "COV:C01.lir.binop.float_reached");
    }
        };
    }
    binop_float!(c01_u5_binop_f32_lt, 11, ast::BinOp::Lt);
    binop_float!(c01_u5_binop_f32_le, 11, ast::BinOp::Le);
    binop_float!(c01_u5_binop_f32_gt, 11, ast::BinOp::Gt);
    binop_float!(c01_u5_binop_f32_ge, 11, ast::BinOp::Ge);
    binop_float!(c01_u5_binop_f32_add, 11, ast::BinOp::Add);
    binop_float!(c01_u5_binop_f32_sub, 11, ast::BinOp::Sub);
    binop_float!(c01_u5_binop_f32_mul, 11, ast::BinOp::Mul);
    binop_float!(c01_u5_binop_f32_div, 11, ast::BinOp::Div);
    binop_float!(c01_u5_binop_f64_lt, 12, ast::BinOp::Lt);
    binop_float!(c01_u5_binop_f64_le, 12, ast::BinOp::Le);
    binop_float!(c01_u5_binop_f64_gt, 12, ast::BinOp::Gt);
    binop_float!(c01_u5_binop_f64_ge, 12, ast::BinOp::Ge);
    binop_float!(c01_u5_binop_f64_add, 12, ast::BinOp::Add);
    binop_float!(c01_u5_binop_f64_sub, 12, ast::BinOp::Sub);
    binop_float!(c01_u5_binop_f64_mul, 12, ast::BinOp::Mul);
    binop_float!(c01_u5_binop_f64_div, 12, ast::BinOp::Div);

    /// AS numbers compare as unsigned 32-bit integers.
    #[kani::proof]
    #[kani::unwind(34)]
    fn c01_u5_binop_asn() {
        let mut ti = TypeInfo { ty_pool: base_pool() };
        let asn = TyRef::STRING; // placeholder replaced below (TyRef fields are private)
        let r = rt();
        // find the TyRef of Asn by pushing a duplicate at the end: its index is what push returns
        let asn_ref = ti.ty_pool.push(Ty::Primitive(Primitive::Asn));
        let _ = asn;
        let mut ctx = LowerCtx { runtime: &r, type_info: &mut ti };
        let mut l = lowerer(&mut ctx);
        let op = ast::BinOp::Ge;
        let _ = l.binop(mvar(3), op, asn_ref, mvar(5));
        let (a, b): (u64, u64) = (kani::any(), kani::any());
        let ok = match &l.blocks[0].instructions[0] {
            Instruction::IntCmp { to, cmp, left, right } => *to == lvar(7) && is_place(left, 3) && is_place(right, 5) && sem_intcmp(cmp, a, b) == lang_cmp(op, false, a, b),
            _ => false,
        };
        assert!(ok && l.blocks[0].instructions.len() == 1, "OBL:C01.lir.binop.asn_compares_unsigned");
        kani::cover!(true, "COV:C01.lir.binop.asn_ge_reached");
    }

    #[kani::proof]
    #[kani::unwind(34)]
    fn canary_c01_u5_binop_int() {
        let mut ti = TypeInfo { ty_pool: base_pool() };
        let r = rt();
        let mut ctx = LowerCtx { runtime: &r, type_info: &mut ti };
        let mut l = lowerer(&mut ctx);
        let _ = l.binop(mvar(3), ast::BinOp::Div, TyRef::I16, mvar(5));
        assert!(!matches!(&l.blocks[0].instructions[0], Instruction::Div { signed: true, .. }), "CANARY:C01.lir.binop.int_instruction_kind");
    }

    // ------------------------------------------------------------------ C01-U6: literals
    /// An integer literal of type (kind, size) becomes the IrValue variant of that type whose
    /// payload is the parsed i64 wrapped to the width; floats: f64 as is, f32 rounded once.
    macro_rules! literal {
        ($name:ident, $k:expr) => {
    #[kani::proof]
    #[kani::unwind(34)]
    fn $name() {
        let mut ti = TypeInfo { ty_pool: base_pool() };
        let r = rt();
        let mut ctx = LowerCtx { runtime: &r, type_info: &mut ti };
        let mut l = lowerer(&mut ctx);
        let k: usize = $k;
        if k <= 10 {
            let x: i64 = kani::any();
            let got = l.literal(&Literal::Integer(x, None), well_known(k));
            let (variant_ok, pattern, bits): (bool, u64, u32) = match (&got, k) {
                (Some(Operand::Value(IrValue::U8(v))), 3) => (true, *v as u64, 8),
                (Some(Operand::Value(IrValue::U16(v))), 4) => (true, *v as u64, 16),
                (Some(Operand::Value(IrValue::U32(v))), 5) => (true, *v as u64, 32),
                (Some(Operand::Value(IrValue::U64(v))), 6) => (true, *v, 64),
                (Some(Operand::Value(IrValue::I8(v))), 7) => (true, *v as u8 as u64, 8),
                (Some(Operand::Value(IrValue::I16(v))), 8) => (true, *v as u16 as u64, 16),
                (Some(Operand::Value(IrValue::I32(v))), 9) => (true, *v as u32 as u64, 32),
                (Some(Operand::Value(IrValue::I64(v))), 10) => (true, *v as u64, 64),
                _ => (false, 0, 64),
            };
            assert!(variant_ok, "OBL:C01.lir.literal.int_variant_is_the_inferred_type");
            let mask = if bits == 64 { u64::MAX } else { (1u64 << bits) - 1 };
            assert!(pattern == (x as u64) & mask, "OBL:C01.lir.literal.int_payload_is_value_wrapped_to_width");
        } else {
            let x: f64 = kani::any();
            kani::assume(!x.is_nan());
            let got = l.literal(&Literal::Float(x, None), well_known(k));
            let ok = match (&got, k) {
                (Some(Operand::Value(IrValue::F32(v))), 11) => v.to_bits() == (x as f32).to_bits(),
                (Some(Operand::Value(IrValue::F64(v))), 12) => v.to_bits() == x.to_bits(),
                _ => false,
            };
            assert!(ok, "OBL:C01.lir.literal.float_variant_and_bits");
        }
        assert!(l.blocks[0].instructions.is_empty() && l.variables.is_empty(), "OBL:C01.lir.literal.scalar_literal_emits_nothing");
        kani::cover!(true, "COV:C01.lir.literal.reached");
    }
        };
    }
    literal!(c01_u6_literal_u8, 3);
    literal!(c01_u6_literal_u16, 4);
    literal!(c01_u6_literal_u32, 5);
    literal!(c01_u6_literal_u64, 6);
    literal!(c01_u6_literal_i8, 7);
    literal!(c01_u6_literal_i16, 8);
    literal!(c01_u6_literal_i32, 9);
    literal!(c01_u6_literal_i64, 10);
    literal!(c01_u6_literal_f32, 11);
    literal!(c01_u6_literal_f64, 12);


    #[kani::proof]
    #[kani::unwind(34)]
    fn c01_u6_literal_bool_char_unit() {
        let mut ti = TypeInfo { ty_pool: base_pool() };
        let r = rt();
        let mut ctx = LowerCtx { runtime: &r, type_info: &mut ti };
        let mut l = lowerer(&mut ctx);
        let b: bool = kani::any();
        let c: char = kani::any();
        let n: u32 = kani::any();
        assert!(matches!(l.literal(&Literal::Bool(b), TyRef::BOOL), Some(Operand::Value(IrValue::Bool(v))) if v == b), "OBL:C01.lir.literal.bool_passthrough");
        assert!(matches!(l.literal(&Literal::Char(c), TyRef::U32), Some(Operand::Value(IrValue::Char(v))) if v == c), "OBL:C01.lir.literal.char_passthrough");
        assert!(matches!(l.literal(&Literal::Asn(inetnum::asn::Asn::from_u32(n)), TyRef::U32), Some(Operand::Value(IrValue::Asn(v))) if v.into_u32() == n), "OBL:C01.lir.literal.asn_passthrough");
        assert!(l.literal(&Literal::Unit, TyRef::UNIT).is_none(), "OBL:C01.lir.literal.unit_has_no_value");
        kani::cover!(b, "COV:C01.lir.literal.true_reached");
    }

    // ------------------------------------------------------------------ C02-K1: offsets
    // Field types are four registered host types whose layouts are ARBITRARY well-formed layouts
    // (alignment 1..16, size a multiple of it up to 4 units, zero-sized included): the structure
    // of the type table is concrete, the layouts are symbolic.  Both ways the unit learns a field
    // layout (the runtime, and the callee contract of the recursive call) report the same one.
    /// least multiple of `a` >= x, for a power of two `a` (all alignments are)
    fn round_up(x: usize, a: usize) -> usize {
        (x + a - 1) & !(a - 1)
    }
    fn any_layout() -> (usize, usize) {
        let sh: u8 = kani::any();
        kani::assume(sh <= 4);
        let align = 1usize << sh;
        let m: usize = kani::any();
        kani::assume(m <= 4);
        (m * align, align)
    }
    /// smaller layout domain for the harnesses with four symbolic layouts (CBMC cost)
    fn any_layout_small() -> (usize, usize) {
        let sh: u8 = kani::any();
        kani::assume(sh <= 3);
        let align = 1usize << sh;
        let m: usize = kani::any();
        kani::assume(m <= 2);
        (m * align, align)
    }
    struct Fields {
        f: [TyRef; 4],
        lay: [(usize, usize); 4],
    }
    fn field_world(pool: &mut Pool) -> (Fields, Rt) {
        field_world_with(pool, [any_layout(), any_layout(), any_layout(), (0, 1)])
    }
    fn field_world_small(pool: &mut Pool) -> (Fields, Rt) {
        field_world_with(pool, [any_layout_small(), any_layout_small(), any_layout_small(), any_layout_small()])
    }
    fn field_world_with(pool: &mut Pool, lay: [(usize, usize); 4]) -> (Fields, Rt) {
        let ids = [std::any::TypeId::of::<u8>(), std::any::TypeId::of::<u16>(), std::any::TypeId::of::<u32>(), std::any::TypeId::of::<u64>()];
        let f = [pool.push(Ty::Runtime(ids[0])), pool.push(Ty::Runtime(ids[1])), pool.push(Ty::Runtime(ids[2])), pool.push(Ty::Runtime(ids[3]))];
        pool.assume_layout(f[0], lay[0].0, lay[0].1);
        pool.assume_layout(f[1], lay[1].0, lay[1].1);
        pool.assume_layout(f[2], lay[2].0, lay[2].1);
        pool.assume_layout(f[3], lay[3].0, lay[3].1);
        let r = Rt {
            types: [
                (ids[0], RuntimeType { layout: Layout::new(lay[0].0, lay[0].1) }),
                (ids[1], RuntimeType { layout: Layout::new(lay[1].0, lay[1].1) }),
                (ids[2], RuntimeType { layout: Layout::new(lay[2].0, lay[2].1) }),
                (ids[3], RuntimeType { layout: Layout::new(lay[3].0, lay[3].1) }),
            ],
        };
        (Fields { f, lay }, r)
    }

    /// C-layout oracle (the rule documented on Pool::layout_of): each field at the next multiple of
    /// its alignment; returns (offsets of fields 0..3, end, max alignment)
    fn oracle(start: usize, w: &Fields) -> ([usize; 3], usize, usize) {
        let o0 = round_up(start, w.lay[0].1);
        let o1 = round_up(o0 + w.lay[0].0, w.lay[1].1);
        let o2 = round_up(o1 + w.lay[1].0, w.lay[2].1);
        let end = o2 + w.lay[2].0;
        let mut align = w.lay[0].1;
        if w.lay[1].1 > align {
            align = w.lay[1].1;
        }
        if w.lay[2].1 > align {
            align = w.lay[2].1;
        }
        ([o0, o1, o2], end, align)
    }

    /// record {f0, f1, f2}: get_field, location, layout_of and the generated clone loop all
    /// address field i at the C-layout offset, inside the record, for all field layouts.
    #[kani::proof]
    #[kani::unwind(34)]
    fn c02_k1_record_offsets() {
        let mut pool = base_pool();
        let (w, r) = field_world(&mut pool);
        let fields = vec![(Identifier(100), w.f[0]), (Identifier(101), w.f[1]), (Identifier(102), w.f[2])];
        let rec = pool.push(Ty::Record(fields.clone()));
        let mut ti = TypeInfo { ty_pool: pool };
        let mut ctx = LowerCtx { runtime: &r, type_info: &mut ti };
        let mut l = lowerer(&mut ctx);
        let (off, end, align) = oracle(0, &w);
        let lay = l.layout_of(rec).unwrap();
        assert!(lay.align() == align && lay.size() == round_up(end, align), "OBL:C02.offsets.record_layout_is_c_layout");
        let i: usize = kani::any();
        kani::assume(i < 3);
        let (o, t) = l.get_field(rec, Identifier(100 + i as u32));
        assert!(o == off[i] && t == w.f[i], "OBL:C02.offsets.get_field_is_c_layout_offset_and_type");
        assert!(o + w.lay[i].0 <= lay.size() && o % w.lay[i].1 == 0, "OBL:C02.offsets.field_inside_record_and_aligned");
        let place = mir::Place { var: mvar(3), root_ty: rec, projection: vec![mir::Projection::Field(Identifier(100 + i as u32))] };
        let loc = l.location(place, w.f[i]);
        assert!(matches!(&loc, Some(Location::Pointer { base, offset }) if *base == lvar(3) && *offset == off[i]), "OBL:C02.offsets.location_of_field_agrees_with_get_field");
        // generated clone function: one clone per field, to and from at the same C-layout offset
        l.generate_clone_body_record(lvar(20), lvar(21), &fields);
        let ok = l.calls.len() == 3
            && l.calls[0] == Call::CloneOf { to_offset: off[0], from_offset: off[0], ty: w.f[0] }
            && l.calls[1] == Call::CloneOf { to_offset: off[1], from_offset: off[1], ty: w.f[1] }
            && l.calls[2] == Call::CloneOf { to_offset: off[2], from_offset: off[2], ty: w.f[2] };
        assert!(ok, "OBL:C02.offsets.generated_clone_addresses_fields_at_the_same_offsets");
        kani::cover!(w.lay[0] == (1, 1) && w.lay[1] == (8, 8) && i == 1, "COV:C02.offsets.padding_before_field_reached");
        kani::cover!(w.lay[1].0 == 0 && i == 2, "COV:C02.offsets.zero_sized_field_reached");
    }

    /// generated drop function of a record: the pointer handed to the field's drop is base + C offset
    /// (concrete layout presets: whether an Offset instruction is emitted depends on the offset
    /// being zero, which makes symbolic layouts branch on every field; the offset arithmetic for
    /// ALL layouts is c02_k1_record_offsets)
    macro_rules! record_drop_offsets {
        ($name:ident, $lay:expr) => {
    #[kani::proof]
    #[kani::unwind(34)]
    fn $name() {
        let mut pool = base_pool();
        let (w, r) = field_world_with(&mut pool, $lay);
        let fields = vec![(Identifier(100), w.f[0]), (Identifier(101), w.f[1]), (Identifier(102), w.f[2])];
        let mut ti = TypeInfo { ty_pool: pool };
        let mut ctx = LowerCtx { runtime: &r, type_info: &mut ti };
        let mut l = lowerer(&mut ctx);
        let (off, _end, _align) = oracle(0, &w);
        l.generate_drop_body_record(lvar(21), &fields);
        // per field: `offset` emits an Offset instruction unless the offset is 0, then the drop call
        let ins = &l.blocks[0].instructions;
        let mut p = 0;
        let mut ok = true;
        let mut j = 0;
        while j < 3 {
            if off[j] != 0 {
                ok = ok && p < ins.len() && matches!(&ins[p], Instruction::Offset { from, offset, .. } if is_place(from, 21) && *offset as usize == off[j]);
                p += 1;
            }
            j += 1;
        }
        ok = ok && p + 1 == ins.len() && matches!(&ins[p], Instruction::Return(None));
        assert!(ok && l.calls.len() == 3, "OBL:C02.offsets.generated_drop_addresses_fields_at_c_layout_offsets");
        kani::cover!(true, "COV:C02.offsets.drop_reached");
        // skip the drop glue of Vec<Instruction> (unwound 34 times per unknown-length loop)
        core::mem::forget(l);
    }
        };
    }
    record_drop_offsets!(c02_k1_record_drop_offsets_u8_u64_u16, [(1, 1), (8, 8), (2, 2), (0, 1)]);
    record_drop_offsets!(c02_k1_record_drop_offsets_zst_u32_u32, [(0, 1), (4, 4), (4, 4), (0, 1)]);
    record_drop_offsets!(c02_k1_record_drop_offsets_u32_u8_str, [(4, 4), (1, 1), (16, 8), (0, 1)]);

    /// enum { V0(f3), V1(f0, f1, f2) }: payload field n of a variant lives at the C-layout offset
    /// after the u8 tag, inside the enum; the discriminant written is the variant's position.
    macro_rules! enum_offsets {
        ($name:ident, $n:expr) => {
    #[kani::proof]
    #[kani::unwind(34)]
    fn $name() {
        let mut pool = base_pool();
        let (w, r) = field_world_small(&mut pool);
        let variants = vec![(Identifier(200), vec![w.f[3]]), (Identifier(201), vec![w.f[0], w.f[1], w.f[2]])];
        let en = pool.push(Ty::Enum(variants));
        let mut ti = TypeInfo { ty_pool: pool };
        let mut ctx = LowerCtx { runtime: &r, type_info: &mut ti };
        let mut l = lowerer(&mut ctx);
        let (off, end, align) = oracle(1, &w);
        let (s3, a3) = w.lay[3];
        let end0 = round_up(1, a3) + s3;
        let ealign = if a3 > align { a3 } else { align };
        let lay = l.layout_of(en).unwrap();
        let need = if end > end0 { end } else { end0 };
        assert!(lay.align() == ealign && lay.size() == round_up(need, ealign), "OBL:C02.offsets.enum_layout_is_union_of_tagged_variants");
        let n: usize = $n;
        let place = mir::Place { var: mvar(3), root_ty: en, projection: vec![mir::Projection::VariantField(Identifier(201), n)] };
        let loc = l.location(place, w.f[n]);
        assert!(matches!(&loc, Some(Location::Pointer { base, offset }) if *base == lvar(3) && *offset == off[n]), "OBL:C02.offsets.variant_field_at_c_layout_offset_after_tag");
        assert!(off[n] >= 1 && off[n] + w.lay[n].0 <= lay.size(), "OBL:C02.offsets.variant_field_inside_enum_after_tag");
        kani::cover!(off[n] > 1, "COV:C02.offsets.padding_after_tag_reached");
    }
        };
    }
    enum_offsets!(c02_k1_enum_offsets_field0, 0);
    enum_offsets!(c02_k1_enum_offsets_field1, 1);
    enum_offsets!(c02_k1_enum_offsets_field2, 2);

    /// first variant's payload and the discriminant written by set_discriminant
    macro_rules! enum_discriminant {
        ($name:ident, $which:expr) => {
    #[kani::proof]
    #[kani::unwind(34)]
    fn $name() {
        let mut pool = base_pool();
        let (w, r) = field_world_small(&mut pool);
        let variants = vec![(Identifier(200), vec![w.f[3]]), (Identifier(201), vec![w.f[0], w.f[1], w.f[2]])];
        let en = pool.push(Ty::Enum(variants));
        let mut ti = TypeInfo { ty_pool: pool };
        let mut ctx = LowerCtx { runtime: &r, type_info: &mut ti };
        let mut l = lowerer(&mut ctx);
        let (_s3, a3) = w.lay[3];
        let place0 = mir::Place { var: mvar(3), root_ty: en, projection: vec![mir::Projection::VariantField(Identifier(200), 0)] };
        let loc0 = l.location(place0, w.f[3]);
        assert!(matches!(&loc0, Some(Location::Pointer { offset, .. }) if *offset == round_up(1, a3)), "OBL:C02.offsets.first_payload_at_tag_rounded_to_alignment");
        let which: bool = $which;
        l.set_discriminant(mvar(3), en, Identifier(if which { 201 } else { 200 }));
        let last = l.blocks[0].instructions.last().unwrap();
        assert!(matches!(last, Instruction::Write { to, val: Operand::Value(IrValue::U8(d)) } if is_place(to, 3) && *d == which as u8), "OBL:C02.offsets.discriminant_is_variant_position_written_at_offset_zero");
        kani::cover!(a3 > 1, "COV:C02.offsets.aligned_first_payload_reached");
    }
        };
    }
    enum_discriminant!(c02_k1_enum_first_variant, false);
    enum_discriminant!(c02_k1_enum_second_variant, true);

    /// nested projection: record { a: f3, inner: record{f0,f1,f2} } . inner . f_i : `location` adds
    /// the per-projection offsets. The inner record has the concrete layouts (1,1),(4,4),(2,2) (its
    /// offsets for ALL layouts are c02_k1_record_offsets; five symbolic alignments in one formula do
    /// not finish in CBMC); the outer first field is symbolic. The inner record's layout enters
    /// through the callee contract.
    macro_rules! nested_offsets {
        ($name:ident, $i:expr) => {
    #[kani::proof]
    #[kani::unwind(34)]
    fn $name() {
        let mut pool = base_pool();
        let (w, r) = field_world_with(&mut pool, [(1, 1), (4, 4), (2, 2), any_layout_small()]);
        let inner = pool.push(Ty::Record(vec![(Identifier(100), w.f[0]), (Identifier(101), w.f[1]), (Identifier(102), w.f[2])]));
        let outer = pool.push(Ty::Record(vec![(Identifier(300), w.f[3]), (Identifier(301), inner)]));
        let (off, end, align) = oracle(0, &w);
        pool.assume_layout(inner, round_up(end, align), align);
        let mut ti = TypeInfo { ty_pool: pool };
        let mut ctx = LowerCtx { runtime: &r, type_info: &mut ti };
        let mut l = lowerer(&mut ctx);
        let inner_off = round_up(w.lay[3].0, align);
        let i: usize = $i;
        let place = mir::Place {
            var: mvar(3),
            root_ty: outer,
            projection: vec![mir::Projection::Field(Identifier(301)), mir::Projection::Field(Identifier(100 + i as u32))],
        };
        let loc = l.location(place, w.f[i]);
        assert!(matches!(&loc, Some(Location::Pointer { base, offset }) if *base == lvar(3) && *offset == inner_off + off[i]), "OBL:C02.offsets.nested_field_offset_is_sum_of_c_layout_offsets");
        kani::cover!(w.lay[3] == (1, 1), "COV:C02.offsets.nested_padding_reached");
    }
        };
    }
    nested_offsets!(c02_k1_nested_offsets_field0, 0);
    nested_offsets!(c02_k1_nested_offsets_field1, 1);
    nested_offsets!(c02_k1_nested_offsets_field2, 2);

    /// Lowerer::offset(var, n) denotes the address var + n for every u32 n: the same variable for
    /// n = 0 (nothing emitted), otherwise a fresh pointer temporary defined by exactly one
    /// Offset { from: var, offset: n }.
    #[kani::proof]
    #[kani::unwind(34)]
    fn c02_k4_offset_is_base_plus_n() {
        let mut ti = TypeInfo { ty_pool: base_pool() };
        let r = rt();
        let mut ctx = LowerCtx { runtime: &r, type_info: &mut ti };
        let mut l = lowerer(&mut ctx);
        let n: u32 = kani::any();
        let v = l.offset(lvar(3), n);
        let ok = if n == 0 {
            v == lvar(3) && l.blocks[0].instructions.is_empty()
        } else {
            v != lvar(3)
                && l.blocks[0].instructions.len() == 1
                && matches!(&l.blocks[0].instructions[0], Instruction::Offset { to, from, offset } if *to == v && is_place(from, 3) && *offset == n)
        };
        assert!(ok, "OBL:C02.offsets.lowerer_offset_is_base_plus_n_with_one_offset_instruction");
        kani::cover!(n == 0, "COV:C02.offsets.zero_offset_reached");
        kani::cover!(n > 0, "COV:C02.offsets.nonzero_offset_reached");
        core::mem::forget(l);
    }

    /// Lowerer::switch: the LIR Switch has the MIR branches and default; a MIR switch WITHOUT a
    /// default (exhaustive match) makes its LAST branch the default and keeps all the others - for
    /// every value the target is the branch whose index equals it, else the default / last branch.
    #[kani::proof]
    #[kani::unwind(34)]
    fn c01_u5_switch_keeps_branches_and_default() {
        let mut ti = TypeInfo { ty_pool: base_pool() };
        let r = rt();
        let mut ctx = LowerCtx { runtime: &r, type_info: &mut ti };
        let mut l = lowerer(&mut ctx);
        let (i0, i1, i2): (usize, usize, usize) = (kani::any(), kani::any(), kani::any());
        kani::assume(i0 != i1 && i0 != i2 && i1 != i2);
        let has_default: bool = kani::any();
        let branches = vec![(i0, LabelRef(10)), (i1, LabelRef(11)), (i2, LabelRef(12))];
        l.switch(mvar(3), branches, if has_default { Some(LabelRef(20)) } else { None });
        let v: usize = kani::any();
        let want = if v == i0 { LabelRef(10) } else if v == i1 { LabelRef(11) } else if v == i2 { LabelRef(12) } else if has_default { LabelRef(20) } else { LabelRef(12) };
        let ok = l.blocks[0].instructions.len() == 1
            && match &l.blocks[0].instructions[0] {
                Instruction::Switch { examinee, branches, default } => {
                    let mut t = *default;
                    let mut k = 0;
                    while k < 3 {
                        if k < branches.len() && branches[k].0 == v {
                            t = branches[k].1;
                        }
                        k += 1;
                    }
                    is_place(examinee, 3) && t == want && branches.len() <= 3
                }
                _ => false,
            };
        assert!(ok, "OBL:C01.lir.switch.target_is_the_branch_with_that_index_else_default_or_last_branch");
        kani::cover!(!has_default && v == i2, "COV:C01.lir.switch.last_branch_as_default_reached");
        core::mem::forget(l);
    }

    /// bytes an emitted instruction sequence stores through `to` when it is read as a copy from
    /// `from`: Copy{size} stores size bytes; Read{tmp, from, ty} followed by Write{to, tmp} stores the
    /// width of ty. Anything else, or any other operand, is not a copy of the component (None).
    fn copy_footprint(ins: &[Instruction], to: usize, from: usize) -> Option<u64> {
        let mut total: u64 = 0;
        let mut pending: Option<(Var, u64)> = None;
        for i in ins {
            match i {
                Instruction::Copy { to: t, from: f, size } => {
                    if !is_place(t, to) || !is_place(f, from) || pending.is_some() {
                        return None;
                    }
                    total += *size as u64;
                }
                Instruction::Read { to: tmp, from: f, ty } => {
                    if !is_place(f, from) || pending.is_some() {
                        return None;
                    }
                    pending = Some((tmp.clone(), ty.bytes() as u64));
                }
                Instruction::Write { to: t, val } => {
                    let Some((tmp, n)) = pending.take() else { return None };
                    if !is_place(t, to) || !matches!(val, Operand::Place(v) if *v == tmp) {
                        return None;
                    }
                    total += n;
                }
                _ => return None,
            }
        }
        if pending.is_some() {
            return None;
        }
        Some(total)
    }

    /// copying an aggregate component copies exactly its bytes, for every size: nothing next to
    /// it is overwritten and nothing of it is left behind. One harness per small size (sizes up to
    /// two machine words are where special-casing happens), one for every larger size.
    fn memcpy_contract(size: u32) {
        let mut ti = TypeInfo { ty_pool: base_pool() };
        let r = rt();
        let mut ctx = LowerCtx { runtime: &r, type_info: &mut ti };
        let mut l = lowerer(&mut ctx);
        l.emit_memcpy(Operand::Place(lvar(3)), Operand::Place(lvar(5)), size);
        let n = l.blocks[0].instructions.len();
        assert!(n <= 4, "OBL:C02.copy.memcpy_emits_a_short_copy_sequence");
        let fp = copy_footprint(&l.blocks[0].instructions, 3, 5);
        assert!(fp == Some(size as u64), "OBL:C02.copy.memcpy_copies_exactly_size_bytes_from_source_to_destination");
        kani::cover!(true, "COV:C02.copy.reached");
    }
    macro_rules! memcpy_size {
        ($($name:ident = $n:expr),*) => { $(
    #[kani::proof]
    #[kani::unwind(34)]
    fn $name() { memcpy_contract($n); }
        )* };
    }
    memcpy_size!(c02_k4_memcpy_0 = 0, c02_k4_memcpy_1 = 1, c02_k4_memcpy_2 = 2, c02_k4_memcpy_3 = 3, c02_k4_memcpy_4 = 4,
        c02_k4_memcpy_5 = 5, c02_k4_memcpy_6 = 6, c02_k4_memcpy_7 = 7, c02_k4_memcpy_8 = 8, c02_k4_memcpy_9 = 9,
        c02_k4_memcpy_10 = 10, c02_k4_memcpy_11 = 11, c02_k4_memcpy_12 = 12, c02_k4_memcpy_13 = 13, c02_k4_memcpy_14 = 14,
        c02_k4_memcpy_15 = 15, c02_k4_memcpy_16 = 16);
    #[kani::proof]
    #[kani::unwind(34)]
    fn c02_k4_memcpy_larger() {
        let size: u32 = kani::any();
        kani::assume(size > 16);
        memcpy_contract(size);
    }

    #[kani::proof]
    #[kani::unwind(34)]
    fn canary_c02_k4_memcpy() {
        let mut ti = TypeInfo { ty_pool: base_pool() };
        let r = rt();
        let mut ctx = LowerCtx { runtime: &r, type_info: &mut ti };
        let mut l = lowerer(&mut ctx);
        let size: u32 = 24;
        l.emit_memcpy(Operand::Place(lvar(3)), Operand::Place(lvar(5)), size);
        let fp = copy_footprint(&l.blocks[0].instructions, 3, 5);
        assert!(fp != Some(size as u64), "CANARY:negated postcondition must fail");
    }

    #[kani::proof]
    #[kani::unwind(34)]
    fn canary_c02_k1_record_offsets() {
        let mut pool = base_pool();
        let rec = pool.push(Ty::Record(vec![(Identifier(100), TyRef::U8), (Identifier(101), TyRef::U32)]));
        let mut ti = TypeInfo { ty_pool: pool };
        let r = rt();
        let mut ctx = LowerCtx { runtime: &r, type_info: &mut ti };
        let mut l = lowerer(&mut ctx);
        let (o, _) = l.get_field(rec, Identifier(101));
        assert!(o != 4, "CANARY:C02.offsets.get_field_is_c_layout_offset");
    }

    // ------------------------------------------------------------------ C02-K2: by reference vs by value
    /// zero-sized => no IR value and not a reference; scalars => a value type of exactly the
    /// type's size; records, enums, String, IpAddr, Prefix, List, registered types => pointer.
    macro_rules! refval {
        ($name:ident, $mk:expr, $aggregate:expr) => {
            #[kani::proof]
            #[kani::unwind(34)]
            fn $name() {
                let mut pool = base_pool();
                let mk: fn(&mut Pool) -> TyRef = $mk;
                let ty = mk(&mut pool);
                let mut ti = TypeInfo { ty_pool: pool };
                let r = rt();
                let mut ctx = LowerCtx { runtime: &r, type_info: &mut ti };
                let mut l = lowerer(&mut ctx);
                let lay = l.layout_of(ty).unwrap();
                let lt = l.lower_type(ty);
                let isref = l.is_reference_type(ty);
                if lay.size() == 0 {
                    assert!(lt.is_none() && isref == Some(false), "OBL:C02.refval.zero_sized_has_no_value_and_is_not_a_reference");
                } else if $aggregate {
                    assert!(lt == Some(IrType::Pointer) && isref == Some(true), "OBL:C02.refval.aggregates_strings_lists_host_types_by_pointer");
                } else {
                    assert!(isref == Some(false) && matches!(lt, Some(t) if t != IrType::Pointer && t.bytes() == lay.size()), "OBL:C02.refval.scalars_by_value_with_exact_width");
                }
                kani::cover!(true, "COV:C02.refval.reached");
            }
        };
    }
    refval!(c02_k2_unit, |_p| TyRef::UNIT, false);
    refval!(c02_k2_bool, |_p| TyRef::BOOL, false);
    refval!(c02_k2_u8, |_p| TyRef::U8, false);
    refval!(c02_k2_u16, |_p| TyRef::U16, false);
    refval!(c02_k2_u32, |_p| TyRef::U32, false);
    refval!(c02_k2_u64, |_p| TyRef::U64, false);
    refval!(c02_k2_i8, |_p| TyRef::I8, false);
    refval!(c02_k2_i16, |_p| TyRef::I16, false);
    refval!(c02_k2_i32, |_p| TyRef::I32, false);
    refval!(c02_k2_i64, |_p| TyRef::I64, false);
    refval!(c02_k2_f32, |_p| TyRef::F32, false);
    refval!(c02_k2_f64, |_p| TyRef::F64, false);
    refval!(c02_k2_string, |_p| TyRef::STRING, true);
    refval!(c02_k2_asn, |p| p.push(Ty::Primitive(Primitive::Asn)), false);
    refval!(c02_k2_char, |p| p.push(Ty::Primitive(Primitive::Char)), false);
    refval!(c02_k2_ipaddr, |p| p.push(Ty::Primitive(Primitive::IpAddr)), true);
    refval!(c02_k2_prefix, |p| p.push(Ty::Primitive(Primitive::Prefix)), true);
    refval!(c02_k2_list, |p| p.push(Ty::List(TyRef::U8)), true);
    refval!(c02_k2_runtime, |p| p.push(Ty::Runtime(std::any::TypeId::of::<u64>())), true);
    refval!(c02_k2_record, |p| p.push(Ty::Record(vec![(Identifier(100), TyRef::U8), (Identifier(101), TyRef::U32)])), true);
    refval!(c02_k2_zst_record, |p| p.push(Ty::Record(vec![(Identifier(100), TyRef::UNIT)])), true);
    refval!(c02_k2_enum, |p| p.push(Ty::Enum(vec![(Identifier(200), vec![TyRef::U8]), (Identifier(201), vec![])])), true);

    // ------------------------------------------------------------------ C05-U2: enum mirrors
    #[repr(C)]
    struct Pair(u8, u32);

    /// Roto's computed layout of Option[T] / Result[T, u8] / Verdict[T, u8] equals the layout of the
    /// #[repr(u8)] Rust mirror the host sees, per payload shape.
    macro_rules! mirror {
        ($name:ident, $mk:expr, $rust:ty) => {
            #[kani::proof]
            #[kani::unwind(34)]
            fn $name() {
                let mut pool = base_pool();
                let mk: fn(&mut Pool) -> TyRef = $mk;
                let t = mk(&mut pool);
                let opt = pool.push(Ty::Enum(vec![(Identifier(1), vec![t]), (Identifier(2), vec![])]));
                let res = pool.push(Ty::Enum(vec![(Identifier(1), vec![t]), (Identifier(2), vec![TyRef::U8])]));
                let r = rt();
                let lo = pool.layout_of(opt, &r).unwrap();
                let lr = pool.layout_of(res, &r).unwrap();
                let (wo, wr, wv) = (Layout::of::<RotoOption<$rust>>(), Layout::of::<RotoResult<$rust, u8>>(), Layout::of::<Verdict<$rust, u8>>());
                assert!(lo.size() == wo.size() && lo.align() == wo.align(), "OBL:C05.mirror.option_layout_equals_rust_mirror");
                assert!(lr.size() == wr.size() && lr.align() == wr.align(), "OBL:C05.mirror.result_layout_equals_rust_mirror");
                assert!(lr.size() == wv.size() && lr.align() == wv.align(), "OBL:C05.mirror.verdict_layout_equals_rust_mirror");
                kani::cover!(true, "COV:C05.mirror.reached");
            }
        };
    }
    mirror!(c05_u2_mirror_unit, |_p| TyRef::UNIT, ());
    mirror!(c05_u2_mirror_bool, |_p| TyRef::BOOL, bool);
    mirror!(c05_u2_mirror_u8, |_p| TyRef::U8, u8);
    mirror!(c05_u2_mirror_i16, |_p| TyRef::I16, i16);
    mirror!(c05_u2_mirror_u32, |_p| TyRef::U32, u32);
    mirror!(c05_u2_mirror_i64, |_p| TyRef::I64, i64);
    mirror!(c05_u2_mirror_f64, |_p| TyRef::F64, f64);
    mirror!(c05_u2_mirror_string, |_p| TyRef::STRING, crate::RotoString);
    mirror!(c05_u2_mirror_pair, |p| { let t = p.push(Ty::Record(vec![(Identifier(100), TyRef::U8), (Identifier(101), TyRef::U32)])); p.assume_layout(t, 8, 4); t }, Pair);

    /// Result / Verdict whose second payload is MORE aligned than the first (the union of the
    /// variant layouts must round the size up to the combined alignment)
    macro_rules! mirror_err {
        ($name:ident, $mk:expr, $rust:ty, $mk_err:expr, $rust_err:ty) => {
            #[kani::proof]
            #[kani::unwind(34)]
            fn $name() {
                let mut pool = base_pool();
                let mk: fn(&mut Pool) -> TyRef = $mk;
                let mk_err: fn(&mut Pool) -> TyRef = $mk_err;
                let t = mk(&mut pool);
                let e = mk_err(&mut pool);
                let res = pool.push(Ty::Enum(vec![(Identifier(1), vec![t]), (Identifier(2), vec![e])]));
                let r = rt();
                let lr = pool.layout_of(res, &r).unwrap();
                let (wr, wv) = (Layout::of::<RotoResult<$rust, $rust_err>>(), Layout::of::<Verdict<$rust, $rust_err>>());
                assert!(lr.size() == wr.size() && lr.align() == wr.align(), "OBL:C05.mirror.result_layout_equals_rust_mirror");
                assert!(lr.size() == wv.size() && lr.align() == wv.align(), "OBL:C05.mirror.verdict_layout_equals_rust_mirror");
                assert!(lr.size() % lr.align() == 0, "OBL:C05.mirror.enum_size_is_a_multiple_of_its_alignment");
                kani::cover!(true, "COV:C05.mirror.reached");
            }
        };
    }
    mirror_err!(c05_u2_mirror_ipaddr_u32, |p| { let t = p.push(Ty::Primitive(Primitive::IpAddr)); p.assume_layout(t, 17, 1); t }, std::net::IpAddr, |_p| TyRef::U32, u32);
    mirror_err!(c05_u2_mirror_ipaddr_u64, |p| { let t = p.push(Ty::Primitive(Primitive::IpAddr)); p.assume_layout(t, 17, 1); t }, std::net::IpAddr, |_p| TyRef::U64, u64);
    mirror_err!(c05_u2_mirror_u8_u64, |_p| TyRef::U8, u8, |_p| TyRef::U64, u64);
    mirror_err!(c05_u2_mirror_i16_f64, |_p| TyRef::I16, i16, |_p| TyRef::F64, f64);

    /// discriminant values and payload offset of the Rust mirrors are the ones Roto writes:
    /// first variant (Some / Ok / Accept) = 0, second = 1, payload at 1 rounded up to its alignment.
    #[kani::proof]
    fn c05_u2_mirror_discriminants_and_payload_offset() {
        let x: u32 = kani::any();
        let some = RotoOption::Some(x);
        let none: RotoOption<u32> = RotoOption::None;
        let ok: RotoResult<u32, u8> = RotoResult::Ok(x);
        let err: RotoResult<u32, u8> = RotoResult::Err(7);
        let acc: Verdict<u32, u8> = Verdict::Accept(x);
        let rej: Verdict<u32, u8> = Verdict::Reject(7);
        fn tag<T>(v: &T) -> u8 {
            unsafe { *(v as *const T as *const u8) }
        }
        fn payload_u32<T>(v: &T) -> u32 {
            unsafe { *((v as *const T as *const u8).add(4) as *const u32) }
        }
        assert!(tag(&some) == 0 && tag(&none) == 1, "OBL:C05.mirror.option_some_is_0_none_is_1");
        assert!(tag(&ok) == 0 && tag(&err) == 1, "OBL:C05.mirror.result_ok_is_0_err_is_1");
        assert!(tag(&acc) == 0 && tag(&rej) == 1, "OBL:C05.mirror.verdict_accept_is_0_reject_is_1");
        assert!(payload_u32(&some) == x && payload_u32(&ok) == x && payload_u32(&acc) == x, "OBL:C05.mirror.payload_at_tag_rounded_up_to_alignment");
        kani::cover!(x == 0xdead_beef, "COV:C05.mirror.payload_value_reached");
    }

    /// C05-U1: the layout Roto assumes for every primitive is the layout of the Rust type the host
    /// passes for it (size and alignment), so a scalar crosses the boundary unchanged.
    #[kani::proof]
    fn c05_u1_primitive_layout_is_the_rust_type_layout() {
        use crate::typechecker::types::{FloatSize, IntKind, IntSize, Primitive};
        fn same<T>(p: Primitive) -> bool {
            let l = p.layout();
            l.size() == core::mem::size_of::<T>() && l.align() == core::mem::align_of::<T>()
        }
        assert!(same::<u8>(Primitive::Int(IntKind::Unsigned, IntSize::I8)) && same::<i8>(Primitive::Int(IntKind::Signed, IntSize::I8)), "OBL:C05.primitive.layout_of_8_bit_integers_is_u8_i8");
        assert!(same::<u16>(Primitive::Int(IntKind::Unsigned, IntSize::I16)) && same::<i16>(Primitive::Int(IntKind::Signed, IntSize::I16)), "OBL:C05.primitive.layout_of_16_bit_integers_is_u16_i16");
        assert!(same::<u32>(Primitive::Int(IntKind::Unsigned, IntSize::I32)) && same::<i32>(Primitive::Int(IntKind::Signed, IntSize::I32)), "OBL:C05.primitive.layout_of_32_bit_integers_is_u32_i32");
        assert!(same::<u64>(Primitive::Int(IntKind::Unsigned, IntSize::I64)) && same::<i64>(Primitive::Int(IntKind::Signed, IntSize::I64)), "OBL:C05.primitive.layout_of_64_bit_integers_is_u64_i64");
        assert!(same::<f32>(Primitive::Float(FloatSize::F32)) && same::<f64>(Primitive::Float(FloatSize::F64)), "OBL:C05.primitive.layout_of_floats_is_f32_f64");
        assert!(same::<bool>(Primitive::Bool), "OBL:C05.primitive.layout_of_bool_is_rust_bool");
        assert!(same::<char>(Primitive::Char), "OBL:C05.primitive.layout_of_char_is_rust_char");
        assert!(same::<inetnum::asn::Asn>(Primitive::Asn), "OBL:C05.primitive.layout_of_asn_is_inetnum_asn");
        assert!(same::<std::net::IpAddr>(Primitive::IpAddr), "OBL:C05.primitive.layout_of_ipaddr_is_std_ipaddr");
        assert!(same::<inetnum::addr::Prefix>(Primitive::Prefix), "OBL:C05.primitive.layout_of_prefix_is_inetnum_prefix");
        assert!(same::<crate::RotoString>(Primitive::String), "OBL:C05.primitive.layout_of_string_is_one_shared_pointer_pair");
        kani::cover!(true, "COV:C05.primitive.reached");
    }
}
