// K-ex unit `lir_lower` — assembled on every run by /verif/check.
// Text that replaced a fragment marker is verbatim source of /repo (see unit.toml / evidence).
#![allow(dead_code, unused_imports, unused_variables, unused_mut, non_upper_case_globals, non_snake_case)]

pub const FIND_HELP: &str = "";
macro_rules! ice {
    ($($t:tt)*) => {
        panic!("ice")
    };
}
pub(crate) use ice;

/// same size and alignment as the real RotoString (a transparent wrapper of Arc<str>)
pub struct RotoString(std::sync::Arc<str>);

pub mod ast {
    use inetnum::asn::Asn;
    #[derive(Clone, Copy, Debug, PartialEq, Eq, PartialOrd, Ord, Hash)]
    pub struct Identifier(pub u32);
    impl core::fmt::Display for Identifier {
        fn fmt(&self, f: &mut core::fmt::Formatter<'_>) -> core::fmt::Result {
            f.write_str("ident")
        }
    }

    /*@ENUM_BINOP@*/

    /*@ENUM_LITERAL@*/

    /*@ENUM_INTTYPE@*/

    /*@ENUM_FLOATTYPE@*/
}

pub mod label {
    #[derive(Clone, Copy, Debug, PartialEq, Eq, Hash)]
    pub struct LabelRef(pub usize);
}

pub mod value {
    type T = ();
    pub type CloneFn = unsafe extern "C" fn(*mut T, *const T);
    pub type DropFn = unsafe extern "C" fn(*mut T);
    pub type EqFn = unsafe extern "C" fn(*const T, *const T) -> bool;
    /// same size and alignment as the real ErasedList (Arc<Mutex<RawList>>)
    pub struct ErasedList(std::sync::Arc<()>);

    #[path = "/repo/src/value/option.rs"]
    pub mod option;
    #[path = "/repo/src/value/result.rs"]
    pub mod result;
    #[path = "/repo/src/value/verdict.rs"]
    pub mod verdict;
}

pub mod runtime {
    #[path = "/repo/src/runtime/layout.rs"]
    pub mod layout;

    #[derive(Clone, Copy, Debug, PartialEq, Eq, Hash)]
    pub struct RuntimeFunctionRef(pub usize);

    pub struct RuntimeType {
        pub layout: layout::Layout,
    }
    impl RuntimeType {
        pub fn layout(&self) -> layout::Layout {
            self.layout.clone()
        }
    }
    /// shim of the runtime: four registered types with the layouts the harness chooses
    pub struct Rt {
        pub types: [(std::any::TypeId, RuntimeType); 4],
    }
    impl Rt {
        pub fn get_runtime_type(&self, id: std::any::TypeId) -> Option<&RuntimeType> {
            if self.types[0].0 == id {
                Some(&self.types[0].1)
            } else if self.types[1].0 == id {
                Some(&self.types[1].1)
            } else if self.types[2].0 == id {
                Some(&self.types[2].1)
            } else if self.types[3].0 == id {
                Some(&self.types[3].1)
            } else {
                None
            }
        }
    }
    pub unsafe extern "C" fn init_string(_s: *mut crate::RotoString, _data: *mut u8, _len: u32) {}
}

pub mod typechecker {
    pub mod scope {
        use crate::ast::Identifier;
        #[derive(Clone, Copy, Debug, PartialEq, Eq, PartialOrd, Ord, Hash)]
        pub struct ScopeRef(pub usize);
        #[derive(Clone, Copy, Debug, PartialEq, Eq, PartialOrd, Ord, Hash)]
        pub struct ResolvedName {
            pub scope: ScopeRef,
            pub ident: Identifier,
        }
    }
    pub mod types {
        use crate::runtime::layout::Layout;

        /*@ENUM_PRIMITIVE@*/

        /*@ENUM_INTSIZE@*/

        /*@ENUM_INTKIND@*/

        /*@ENUM_FLOATSIZE@*/

        /*@IMPL_INTSIZE@*/

        /*@IMPL_FLOATSIZE@*/

        impl Primitive {
            /*@FN_PRIM_LAYOUT@*/
        }
    }
    pub mod info {
        pub struct TypeInfo {
            pub ty_pool: crate::mir::Pool,
        }
    }
}

pub mod mir {
    use crate::{
        ast::Identifier,
        runtime::{
            layout::{Layout, LayoutBuilder},
            Rt,
        },
        typechecker::{
            scope::ScopeRef,
            types::{FloatSize, IntKind, IntSize, Primitive},
        },
        value::ErasedList,
    };
    pub use crate::ast::Literal;

    /*@ENUM_TY@*/

    /*@STRUCT_TYREF@*/

    /*@IMPL_TYREF0@*/

    /*@IMPL_TYREF1@*/

    /// shim: the real Pool interns into an IndexSet; only the index -> Ty direction is used here.
    /// An inline array (not a Vec) keeps the type table visible to CBMC's constant propagation.
    pub struct Pool {
        pub types: [Ty; 32],
        pub n: usize,
        /// callee contract for the recursive calls of layout_of: (size, align, inhabited) per TyRef
        pub callee: [(usize, usize, bool); 32],
    }

    impl Pool {
        /*@FN_POOL_LAYOUT_OF@*/

        /*@FN_POOL_IS_REF@*/

        /*@FN_POOL_GET@*/

        /// harness helper: append a type (no interning)
        pub fn push(&mut self, ty: Ty) -> TyRef {
            self.types[self.n] = ty;
            self.n += 1;
            TyRef(self.n - 1)
        }

        /// harness helper: state the callee contract for a type
        pub fn assume_layout(&mut self, ty: TyRef, size: usize, align: usize) {
            self.callee[ty.0] = (size, align, true);
        }

        /// contract stub standing in for the recursive calls of `layout_of`
        fn layout_of_callee(&self, ty: TyRef, _rt: &Rt) -> Option<Layout> {
            let (size, align, inhabited) = self.callee[ty.0];
            if inhabited { Some(Layout::new(size, align)) } else { None }
        }
    }

    /*@MIR_VAR@*/

    /*@MIR_VARKIND@*/

    /*@MIR_PLACE@*/

    /*@MIR_PROJECTION@*/
}

pub mod lir {
    use crate::{
        ast::Identifier,
        label::LabelRef,
        runtime::{self, layout::Layout},
        typechecker::{
            self,
            scope::{ResolvedName, ScopeRef},
        },
        value::{CloneFn, DropFn, EqFn},
        RotoString,
    };
    pub use value::{IrType, IrValue};

    #[path = "/repo/src/lir/value.rs"]
    pub mod value;

    /*@STRUCT_VAR@*/

    /*@ENUM_VARKIND@*/

    /*@IMPL_FROM_VAR@*/

    /*@ENUM_OPERAND@*/

    /*@ENUM_INSTRUCTION@*/

    /*@ENUM_INTCMP@*/

    /*@ENUM_FLOATCMP@*/

    /*@ENUM_VALUEORSLOT@*/

    /*@STRUCT_BLOCK@*/

    pub mod lower {
        use crate::{
            ast::{self, BinOp, Identifier, Literal},
            ice,
            label::LabelRef,
            lir::IrValue,
            mir::{self, Ty, TyRef},
            runtime::{
                init_string,
                layout::{Layout, LayoutBuilder},
                Rt, RuntimeFunctionRef,
            },
            typechecker::{
                info::TypeInfo,
                scope::{ResolvedName, ScopeRef},
                types::{self, FloatSize, IntKind, IntSize, Primitive},
            },
            value::{CloneFn, EqFn},
        };

        use super::{value::IrType, Block, FloatCmp, Instruction, IntCmp, Operand, ValueOrSlot, Var, VarKind};

        pub struct LowerCtx<'c> {
            pub runtime: &'c Rt,
            pub type_info: &'c mut TypeInfo,
        }

        /// what the shimmed callees were asked to do
        #[derive(Debug, Clone, PartialEq)]
        pub enum Call {
            EqOf { negate: bool, left: Operand2, right: Operand2, ty: TyRef },
            CloneOf { to_offset: usize, from_offset: usize, ty: TyRef },
            DropOf { ty: TyRef },
        }
        /// comparable summary of an Operand (Operand itself has no PartialEq)
        #[derive(Debug, Clone, PartialEq)]
        pub enum Operand2 {
            Place(Var),
            Value,
        }
        pub fn summarize(o: &Operand) -> Operand2 {
            match o {
                Operand::Place(v) => Operand2::Place(v.clone()),
                Operand::Value(_) => Operand2::Value,
            }
        }

        pub struct Lowerer<'c, 'r> {
            pub ctx: &'c mut LowerCtx<'r>,
            pub blocks: Vec<Block>,
            pub function_scope: ScopeRef,
            pub tmp_idx: usize,
            pub return_type: TyRef,
            pub force_reference_return: bool,
            pub variables: Vec<(Var, ValueOrSlot)>,
            // shim state
            pub calls: Vec<Call>,
            pub needs_drop_answer: bool,
        }

        /*@ENUM_LOCATION@*/

        impl Lowerer<'_, '_> {
            // ---- real text
            /*@FN_BINOP@*/

            /*@FN_LITERAL@*/

            /*@FN_LOWER_TYPE@*/

            /*@FN_LAYOUT_OF@*/

            /*@FN_IS_REF@*/

            /*@FN_LOCATION@*/

            /*@FN_GET_FIELD@*/

            /*@FN_SET_DISCR@*/

            /*@FN_GET_DISCR@*/

            /*@FN_VAR@*/

            /*@FN_EMIT@*/

            /*@FN_EMIT_READ@*/

            /*@FN_EMIT_WRITE@*/

            /*@FN_EMIT_RETURN@*/

            /*@FN_OFFSET@*/

            /*@FN_NEW_TMP@*/

            /*@FN_NEW_STACK_SLOT@*/

            /*@FN_CLONE_RECORD@*/

            /*@FN_DROP_RECORD@*/

            // ---- shimmed callees (their real text lives in lower/eq.rs, clones.rs, drops.rs)
            fn call_eq_of(&mut self, negate: bool, left: Operand, right: Operand, ty: TyRef) -> Operand {
                self.calls.push(Call::EqOf { negate, left: summarize(&left), right: summarize(&right), ty });
                Operand::Value(IrValue::Bool(true))
            }
            fn call_clone_of(&mut self, to: Location, from: Location, ty: TyRef) {
                let off = |l: &Location| match l {
                    Location::Pointer { offset, .. } => *offset,
                    Location::Var(_) => usize::MAX,
                };
                self.calls.push(Call::CloneOf { to_offset: off(&to), from_offset: off(&from), ty });
            }
            fn call_drop_of(&mut self, _var: Operand, ty: TyRef) {
                self.calls.push(Call::DropOf { ty });
            }
            fn needs_drop(&mut self, _ty: TyRef) -> bool {
                self.needs_drop_answer
            }
        }

        /*@FN_INT_CMP@*/

        /*@FN_FLOAT_CMP@*/

        include!("harness.rs");
    }
}

fn main() {}
