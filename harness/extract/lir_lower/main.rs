// K-ex unit `lir_lower` — assembled on every run by /verif/check.
// Text that replaced a fragment marker is verbatim source of /repo (see unit.toml / evidence).
#![allow(dead_code, unused_imports, unused_variables, unused_mut, non_upper_case_globals, non_snake_case)]

pub const FIND_HELP: &str = "";
macro_rules! ice {
    ($($t:tt)*) => {
        panic!("ice")
    };
}
pub(crate) use ice;

/// same size and alignment as the real RotoString (a transparent wrapper of Arc<str>)
pub struct RotoString(std::sync::Arc<str>);

pub mod ast {
    use inetnum::asn::Asn;
    #[derive(Clone, Copy, Debug, PartialEq, Eq, PartialOrd, Ord, Hash)]
    pub struct Identifier(pub u32);
    impl core::fmt::Display for Identifier {
        fn fmt(&self, f: &mut core::fmt::Formatter<'_>) -> core::fmt::Result {
            f.write_str("ident")
        }
    }

    /*@ENUM_BINOP@*/

    /*@ENUM_LITERAL@*/

    /*@ENUM_INTTYPE@*/

    /*@ENUM_FLOATTYPE@*/
}

pub mod label {
    #[derive(Clone, Copy, Debug, PartialEq, Eq, Hash)]
    pub struct LabelRef(pub usize);
}

pub mod value {
    type T = ();
    pub type CloneFn = unsafe extern "C" fn(*mut T, *const T);
    pub type DropFn = unsafe extern "C" fn(*mut T);
    pub type EqFn = unsafe extern "C" fn(*const T, *const T) -> bool;
    /// same size and alignment as the real ErasedList (Arc<Mutex<RawList>>)
    pub struct ErasedList(std::sync::Arc<()>);

    #[path = "/repo/src/value/option.rs"]
    pub mod option;
    #[path = "/repo/src/value/result.rs"]
    pub mod result;
    #[path = "/repo/src/value/verdict.rs"]
    pub mod verdict;
}

pub mod runtime {
    #[path = "/repo/src/runtime/layout.rs"]
    pub mod layout;

    #[derive(Clone, Copy, Debug, PartialEq, Eq, Hash)]
    pub struct RuntimeFunctionRef(pub usize);

    pub struct RuntimeType {
        pub layout: layout::Layout,
    }
    impl RuntimeType {
        pub fn layout(&self) -> layout::Layout {
            self.layout.clone()
        }
    }
    /// shim of the runtime: four registered types with the layouts the harness chooses
    pub struct Rt {
        pub types: [(std::any::TypeId, RuntimeType); 4],
    }
    impl Rt {
        pub fn get_runtime_type(&self, id: std::any::TypeId) -> Option<&RuntimeType> {
            if self.types[0].0 == id {
                Some(&self.types[0].1)
            } else if self.types[1].0 == id {
                Some(&self.types[1].1)
            } else if self.types[2].0 == id {
                Some(&self.types[2].1)
            } else if self.types[3].0 == id {
                Some(&self.types[3].1)
            } else {
                None
            }
        }
    }
    pub unsafe extern "C" fn init_string(_s: *mut crate::RotoString, _data: *mut u8, _len: u32) {}
}

pub mod typechecker {
    pub mod scope {
        use crate::ast::Identifier;
        #[derive(Clone, Copy, Debug, PartialEq, Eq, PartialOrd, Ord, Hash)]
        pub struct ScopeRef(pub usize);
        #[derive(Clone, Copy, Debug, PartialEq, Eq, PartialOrd, Ord, Hash)]
        pub struct ResolvedName {
            pub scope: ScopeRef,
            pub ident: Identifier,
        }
    }
    pub mod types {
        use crate::runtime::layout::Layout;

        /*@ENUM_PRIMITIVE@*/

        /*@ENUM_INTSIZE@*/

        /*@ENUM_INTKIND@*/

        /*@ENUM_FLOATSIZE@*/

        /*@IMPL_INTSIZE@*/

        /*@IMPL_FLOATSIZE@*/

        impl Primitive {
            /*@FN_PRIM_LAYOUT@*/
        }
    }
    pub mod info {
        pub struct TypeInfo {
            pub ty_pool: crate::mir::Pool,
        }
    }
}

pub mod mir {
    use crate::{
        ast::Identifier,
        runtime::{
            layout::{Layout, LayoutBuilder},
            Rt,
        },
        typechecker::{
            scope::ScopeRef,
            types::{FloatSize, IntKind, IntSize, Primitive},
        },
        value::ErasedList,
    };
    pub use crate::ast::Literal;

    /*@ENUM_TY@*/

    /*@STRUCT_TYREF@*/

    /*@IMPL_TYREF0@*/

    /*@IMPL_TYREF1@*/

    /// shim: the real Pool interns into an IndexSet; only the index -> Ty direction is used here.
    /// An inline array (not a Vec) keeps the type table visible to CBMC's constant propagation.
    pub struct Pool {
        pub types: [Ty; 32],
        pub n: usize,
        /// callee contract for the recursive calls of layout_of: (size, align, inhabited) per TyRef
        pub callee: [(usize, usize, bool); 32],
    }

    impl Pool {
        /*@FN_POOL_LAYOUT_OF@*/

        /*@FN_POOL_IS_REF@*/

        /*@FN_POOL_GET@*/

        /// harness helper: append a type (no interning)
        pub fn push(&mut self, ty: Ty) -> TyRef {
            self.types[self.n] = ty;
            self.n += 1;
            TyRef(self.n - 1)
        }

        /// harness helper: state the callee contract for a type
        pub fn assume_layout(&mut self, ty: TyRef, size: usize, align: usize) {
            self.callee[ty.0] = (size, align, true);
        }

        /// contract stub standing in for the recursive calls of `layout_of`
        fn layout_of_callee(&self, ty: TyRef, _rt: &Rt) -> Option<Layout> {
            let (size, align, inhabited) = self.callee[ty.0];
            if inhabited { Some(Layout::new(size, align)) } else { None }
        }
    }

    /*@MIR_VAR@*/

    /*@MIR_VARKIND@*/

    /*@MIR_PLACE@*/

    /*@MIR_PROJECTION@*/
}

pub mod lir {
    use crate::{
        ast::Identifier,
        label::LabelRef,
        runtime::{self, layout::Layout},
        typechecker::{
            self,
            scope::{ResolvedName, ScopeRef},
        },
        value::{CloneFn, DropFn, EqFn},
        RotoString,
    };
    pub use value::{IrType, IrValue};

    #[path = "/repo/src/lir/value.rs"]
    pub mod value;

    /*@STRUCT_VAR@*/

    /*@ENUM_VARKIND@*/

    /*@IMPL_FROM_VAR@*/

    /*@ENUM_OPERAND@*/

    /*@ENUM_INSTRUCTION@*/

    /*@ENUM_INTCMP@*/

    /*@ENUM_FLOATCMP@*/

    /*@ENUM_VALUEORSLOT@*/

    /*@STRUCT_BLOCK@*/

    pub mod lower {
        use crate::{
            ast::{self, BinOp, Identifier, Literal},
            ice,
            label::LabelRef,
            lir::IrValue,
            mir::{self, Ty, TyRef},
            runtime::{
                init_string,
                layout::{Layout, LayoutBuilder},
                Rt, RuntimeFunctionRef,
            },
            typechecker::{
                info::TypeInfo,
                scope::{ResolvedName, ScopeRef},
                types::{self, FloatSize, IntKind, IntSize, Primitive},
            },
            value::{CloneFn, EqFn},
        };

        use super::{value::IrType, Block, FloatCmp, Instruction, IntCmp, Operand, ValueOrSlot, Var, VarKind};

        pub struct LowerCtx<'c> {
            pub runtime: &'c Rt,
            pub type_info: &'c mut TypeInfo,
        }

        /// what the shimmed callees were asked to do
        #[derive(Debug, Clone, PartialEq)]
        pub enum Call {
            EqOf { negate: bool, left: Operand2, right: Operand2, ty: TyRef },
            CloneOf { to_offset: usize, from_offset: usize, ty: TyRef },
            DropOf { ty: TyRef },
        }
        /// comparable summary of an Operand (Operand itself has no PartialEq)
        #[derive(Debug, Clone, PartialEq)]
        pub enum Operand2 {
            Place(Var),
            Value,
        }
        pub fn summarize(o: &Operand) -> Operand2 {
            match o {
                Operand::Place(v) => Operand2::Place(v.clone()),
                Operand::Value(_) => Operand2::Value,
            }
        }

        pub struct Lowerer<'c, 'r> {
            pub ctx: &'c mut LowerCtx<'r>,
            pub blocks: Vec<Block>,
            pub function_scope: ScopeRef,
            pub tmp_idx: usize,
            pub return_type: TyRef,
            pub force_reference_return: bool,
            pub variables: Vec<(Var, ValueOrSlot)>,
            // shim state
            pub calls: Vec<Call>,
            pub needs_drop_answer: bool,
        }

        /*@ENUM_LOCATION@*/

        impl Lowerer<'_, '_> {
            // ---- real text
            /*@FN_BINOP@*/

            /*@FN_LITERAL@*/

            /*@FN_LOWER_TYPE@*/

            /*@FN_LAYOUT_OF@*/

            /*@FN_IS_REF@*/

            /*@FN_LOCATION@*/

            /*@FN_GET_FIELD@*/

            /*@FN_SET_DISCR@*/

            /*@FN_GET_DISCR@*/

            /*@FN_VAR@*/

            /*@FN_EMIT@*/

            /*@FN_EMIT_READ@*/

            /*@FN_EMIT_WRITE@*/

            /*@FN_EMIT_RETURN@*/

            /*@FN_EMIT_MEMCPY@*/

            /*@FN_SWITCH@*/

            /*@FN_EMIT_SWITCH@*/

            /*@FN_OFFSET@*/

            /*@FN_NEW_TMP@*/

            /*@FN_NEW_STACK_SLOT@*/

            /*@FN_CLONE_RECORD@*/

            /*@FN_DROP_RECORD@*/

            // ---- shimmed callees (their real text lives in lower/eq.rs, clones.rs, drops.rs)
            fn call_eq_of(&mut self, negate: bool, left: Operand, right: Operand, ty: TyRef) -> Operand {
                self.calls.push(Call::EqOf { negate, left: summarize(&left), right: summarize(&right), ty });
                Operand::Value(IrValue::Bool(true))
            }
            fn call_clone_of(&mut self, to: Location, from: Location, ty: TyRef) {
                let off = |l: &Location| match l {
                    Location::Pointer { offset, .. } => *offset,
                    Location::Var(_) => usize::MAX,
                };
                self.calls.push(Call::CloneOf { to_offset: off(&to), from_offset: off(&from), ty });
            }
            fn call_drop_of(&mut self, _var: Operand, ty: TyRef) {
                self.calls.push(Call::DropOf { ty });
            }
            fn needs_drop(&mut self, _ty: TyRef) -> bool {
                self.needs_drop_answer
            }
        }

        /*@FN_INT_CMP@*/

        /*@FN_FLOAT_CMP@*/

        include!("harness.rs");
    }

    /// generated structural equality (src/lir/lower/eq.rs): which field is compared at which offset
    pub mod eq_unit {
        use crate::{
            ast::Identifier,
            ice,
            label::LabelRef,
            lir::IrValue,
            mir::{Pool, Ty, TyRef},
            runtime::{
                layout::{Layout, LayoutBuilder},
                Rt,
            },
            typechecker::{
                info::TypeInfo,
                scope::ScopeRef,
                types::Primitive,
            },
        };

        use super::{value::IrType, Block, FloatCmp, Instruction, IntCmp, Operand, Var, VarKind};

        impl From<&str> for Identifier {
            fn from(s: &str) -> Self {
                Identifier(match s {
                    "left" => 1,
                    "right" => 2,
                    "eq" => 3,
                    "false" => 4,
                    _ => 9,
                })
            }
        }
        impl From<&String> for Identifier {
            fn from(_s: &String) -> Self {
                Identifier(8)
            }
        }
        // error / label text is not part of the contract
        macro_rules! format {
            ($($t:tt)*) => {
                String::new()
            };
        }

        pub struct LabelStore {
            pub n: usize,
        }
        impl LabelStore {
            pub fn new_label(&mut self, _identifier: Identifier) -> LabelRef {
                self.n += 1;
                LabelRef(self.n - 1)
            }
            pub fn wrap_internal(&mut self, _parent: LabelRef, _identifier: Identifier) -> LabelRef {
                self.n += 1;
                LabelRef(self.n - 1)
            }
        }
        pub struct LowerCtx<'c> {
            pub runtime: &'c Rt,
            pub type_info: &'c mut TypeInfo,
            pub label_store: &'c mut LabelStore,
        }
        /// (offset handed to `offset()` for the left operand, for the right operand, field type)
        #[derive(Clone, Copy, Debug, PartialEq)]
        pub struct Cmp {
            pub left_offset: u32,
            pub right_offset: u32,
            pub ty: TyRef,
        }
        pub struct Lowerer<'c, 'r> {
            pub ctx: &'c mut LowerCtx<'r>,
            pub blocks: Vec<Block>,
            pub tmp: usize,
            // recorded by the shims
            pub last_offsets: [(usize, u32); 2],
            pub n_offsets: usize,
            pub cmps: [Option<Cmp>; 4],
            pub n_cmps: usize,
            pub other_arm: bool,
            pub returned: usize,
        }

        impl Lowerer<'_, '_> {
            // ---- real text
            /*@FN_GENERATE_EQ_BODY@*/

            /*@FN_GENERATE_EQ_BODY_RECORD@*/

            fn layout_of(&self, ty: TyRef) -> Option<Layout> {
                self.ctx.type_info.ty_pool.layout_of(ty, self.ctx.runtime)
            }
            fn is_reference_type(&mut self, ty: TyRef) -> Option<bool> {
                self.ctx.type_info.ty_pool.is_reference_type(ty, self.ctx.runtime)
            }

            // ---- recording shims of the emitters
            fn current_label(&self) -> LabelRef {
                LabelRef(0)
            }
            fn emit_jump(&mut self, _lbl: LabelRef) {}
            fn new_block(&mut self, _label: LabelRef) {}
            fn emit_switch(&mut self, _examinee: Operand, _branches: Vec<(usize, LabelRef)>, _default: LabelRef) {}
            fn emit_return(&mut self, _var: Option<Operand>) {
                self.returned += 1;
            }
            fn offset(&mut self, var: Var, offset: u32) -> Var {
                let base = match var.kind {
                    VarKind::Explicit(Identifier(k)) => k as usize,
                    _ => 0,
                };
                self.last_offsets[self.n_offsets % 2] = (base, offset);
                self.n_offsets += 1;
                self.tmp += 1;
                Var { scope: var.scope, kind: VarKind::Tmp(self.tmp) }
            }
            fn call_eq_by_ptr(&mut self, _left: Var, _right: Var, ty: TyRef) -> Operand {
                // the two preceding offset() calls produced the operands: left base first, then right
                let (lb, lo) = self.last_offsets[0];
                let (rb, ro) = self.last_offsets[1];
                assert!(lb == 1 && rb == 2 && self.n_offsets % 2 == 0, "shim: operands of a field comparison are left+offset, right+offset");
                assert!(self.n_cmps < 4, "shim: comparison log full");
                self.cmps[self.n_cmps] = Some(Cmp { left_offset: lo, right_offset: ro, ty });
                self.n_cmps += 1;
                Operand::Value(IrValue::Bool(true))
            }
            fn generate_eq_body_enum(&mut self, _l: Var, _r: Var, _variants: &[(Identifier, Vec<TyRef>)]) {
                self.other_arm = true;
            }
            fn generate_eq_runtime(&mut self, _l: Var, _r: Var, _ty: TyRef) {
                self.other_arm = true;
            }
            fn generate_int_eq(&mut self, _l: Var, _r: Var, _ty: TyRef) {
                self.other_arm = true;
            }
            fn generate_float_eq(&mut self, _l: Var, _r: Var, _ty: TyRef) {
                self.other_arm = true;
            }
        }

        include!("harness_eq.rs");
    }
}

fn main() {}
