// Contract (C02): "== / != compare structurally": the generated equality of a record compares
// every field, in declaration order, each at the field's C-layout offset on both sides.
mod h {
    use super::*;
    use crate::runtime::RuntimeType;

    fn pool_with(fields_lay: [(usize, usize); 3]) -> (Pool, Rt, [TyRef; 3]) {
        let ids = [std::any::TypeId::of::<u8>(), std::any::TypeId::of::<u16>(), std::any::TypeId::of::<u32>(), std::any::TypeId::of::<u64>()];
        let mut p = Pool { types: [const { Ty::Unit }; 32], n: 0, callee: [(0, 1, true); 32] };
        let f = [p.push(Ty::Runtime(ids[0])), p.push(Ty::Runtime(ids[1])), p.push(Ty::Runtime(ids[2]))];
        let mut i = 0;
        while i < 3 {
            p.assume_layout(f[i], fields_lay[i].0, fields_lay[i].1);
            i += 1;
        }
        let mk = |k: usize| RuntimeType { layout: Layout::new(fields_lay[k].0, fields_lay[k].1) };
        let r = Rt { types: [(ids[0], mk(0)), (ids[1], mk(1)), (ids[2], mk(2)), (ids[3], mk(0))] };
        (p, r, f)
    }
    fn round_up(x: usize, a: usize) -> usize {
        (x + a - 1) & !(a - 1)
    }

    macro_rules! eq_record {
        ($name:ident, $lay:expr) => {
            #[kani::proof]
            #[kani::unwind(34)]
            fn $name() {
                let lay: [(usize, usize); 3] = $lay;
                let (mut pool, r, f) = pool_with(lay);
                let rec = pool.push(Ty::Record(vec![(Identifier(100), f[0]), (Identifier(101), f[1]), (Identifier(102), f[2])]));
                let mut ti = TypeInfo { ty_pool: pool };
                let mut ls = LabelStore { n: 0 };
                let mut ctx = LowerCtx { runtime: &r, type_info: &mut ti, label_store: &mut ls };
                let mut l = Lowerer { ctx: &mut ctx, blocks: Vec::new(), tmp: 0, last_offsets: [(0, 0); 2], n_offsets: 0, cmps: [None; 4], n_cmps: 0, other_arm: false, returned: 0 };
                l.generate_eq_body(Identifier(7), ScopeRef(1), rec);
                let o0 = round_up(0, lay[0].1);
                let o1 = round_up(o0 + lay[0].0, lay[1].1);
                let o2 = round_up(o1 + lay[1].0, lay[2].1);
                assert!(l.n_cmps == 3 && !l.other_arm, "OBL:C02.eq.record_equality_compares_every_field_once");
                let want = [
                    Cmp { left_offset: o0 as u32, right_offset: o0 as u32, ty: f[0] },
                    Cmp { left_offset: o1 as u32, right_offset: o1 as u32, ty: f[1] },
                    Cmp { left_offset: o2 as u32, right_offset: o2 as u32, ty: f[2] },
                ];
                assert!(l.cmps[0] == Some(want[0]) && l.cmps[1] == Some(want[1]) && l.cmps[2] == Some(want[2]), "OBL:C02.eq.each_field_compared_at_its_c_layout_offset_with_its_type");
                kani::cover!(true, "COV:C02.eq.case_reached");
                core::mem::forget(l);
            }
        };
    }
    /// two-field record: by-reference field first, by-value field second
    #[kani::proof]
    #[kani::unwind(34)]
    fn c02_k3_eq_record2_str_u32() {
        let lay: [(usize, usize); 3] = [(16, 8), (4, 4), (1, 1)];
        let (mut pool, r, f) = pool_with(lay);
        let rec = pool.push(Ty::Record(vec![(Identifier(100), f[0]), (Identifier(101), f[1])]));
        let mut ti = TypeInfo { ty_pool: pool };
        let mut ls = LabelStore { n: 0 };
        let mut ctx = LowerCtx { runtime: &r, type_info: &mut ti, label_store: &mut ls };
        let mut l = Lowerer { ctx: &mut ctx, blocks: Vec::new(), tmp: 0, last_offsets: [(0, 0); 2], n_offsets: 0, cmps: [None; 4], n_cmps: 0, other_arm: false, returned: 0 };
        l.generate_eq_body(Identifier(7), ScopeRef(1), rec);
        assert!(l.n_cmps == 2 && !l.other_arm, "OBL:C02.eq.record_equality_compares_every_field_once");
        let want = [Cmp { left_offset: 0, right_offset: 0, ty: f[0] }, Cmp { left_offset: 16, right_offset: 16, ty: f[1] }];
        assert!(l.cmps[0] == Some(want[0]) && l.cmps[1] == Some(want[1]), "OBL:C02.eq.each_field_compared_at_its_c_layout_offset_with_its_type");
        kani::cover!(true, "COV:C02.eq.case_reached");
        core::mem::forget(l);
    }

    // by-reference field (16 bytes, align 8) before by-value fields of other sizes, and the reverse
    eq_record!(c02_k3_eq_record_str_u32_u8, [(16, 8), (4, 4), (1, 1)]);
    eq_record!(c02_k3_eq_record_u8_str_u32, [(1, 1), (16, 8), (4, 4)]);
    eq_record!(c02_k3_eq_record_u8_u64_u16, [(1, 1), (8, 8), (2, 2)]);
    eq_record!(c02_k3_eq_record_zst_u32_str, [(0, 1), (4, 4), (16, 8)]);
}
