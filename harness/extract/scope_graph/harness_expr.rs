// Contracts (C13-U2) on the scope-opening arms of TypeChecker::expr, from the property statement:
// "a bare name refers to exactly the item the lookup rules select: declarations of the innermost
// enclosing scope, then that scope's imports, then outward ... Same-named items in different
// modules or scopes never interfere, a name the rules do not reach is an error".
// For block structure this means: every block body is checked in a FRESH scope whose parent is
// the scope of the enclosing expression; sibling blocks (then / else) do not see each other.
mod h_expr {
    use super::*;

    /// function body scope F (child of root) declaring OUTER; returns (checker, F)
    fn checker() -> (TypeChecker, ScopeRef) {
        let mut g = ScopeGraph::new();
        let f = g.wrap(ScopeRef::GLOBAL, ScopeType::Function(Identifier(1)));
        let _ = g.insert_declaration(f, &Meta { node: Identifier(OUTER), id: MetaId(700) }, DeclarationKind::Value, crate::shim::String, |_| false);
        let tc = TypeChecker {
            type_info: TypeInfo { scope_graph: g, diverges: Diverges { last: None } },
            block_counter: kani::any::<u8>() as usize,
            if_else_counter: kani::any::<u8>() as usize,
            while_counter: kani::any::<u8>() as usize,
            for_counter: kani::any::<u8>() as usize,
            next_var: 0,
            log: [None; 6],
            n: 0,
            expr_diverges: kani::any(),
            block_diverges: kani::any(),
            blocks_seen: 0,
            block_declares: kani::any(),
            block_saw_local: [false; 2],
            block_saw_outer: [false; 2],
        };
        (tc, f)
    }
    fn cond() -> Box<Meta<Expr>> {
        Box::new(Meta { node: Expr(1), id: MetaId(101) })
    }
    fn blk(k: u8) -> Meta<Block> {
        Meta { node: Block(k), id: MetaId(110 + k as usize) }
    }
    fn block_scope(tc: &TypeChecker, tag: u8) -> Option<ScopeRef> {
        let mut i = 0;
        while i < 6 {
            if let Some(Seen::Block(t, s, _)) = tc.log[i] {
                if t == tag {
                    return Some(s);
                }
            }
            i += 1;
        }
        None
    }
    fn fresh_child_of(tc: &TypeChecker, s: Option<ScopeRef>, parent: ScopeRef, existed_before: usize) -> bool {
        match s {
            Some(s) => s.0 >= existed_before && tc.type_info.scope_graph.parent(s) == Some(parent),
            None => false,
        }
    }

    #[kani::proof]
    #[kani::unwind(8)]
    fn c13_u2_if_else_scopes() {
        let (mut tc, f) = checker();
        let before = tc.type_info.scope_graph.scopes.len();
        let idx = tc.if_else_counter;
        let ctx = Context { expected_type: Type::Var(0) };
        let els = Some(blk(3));
        let r = tc.arm_if_else(f, &ctx, MetaId(100), &cond(), &blk(2), &els);
        let (ts, es) = (block_scope(&tc, 2), block_scope(&tc, 3));
        assert!(matches!(tc.log[0], Some(Seen::Expr(1, s, Type::Bool)) if s == f), "OBL:C13.expr.condition_is_checked_in_the_enclosing_scope_as_bool");
        assert!(fresh_child_of(&tc, ts, f, before), "OBL:C13.expr.then_block_gets_a_fresh_child_of_the_enclosing_scope");
        assert!(fresh_child_of(&tc, es, f, before), "OBL:C13.expr.else_block_gets_a_fresh_child_of_the_enclosing_scope");
        assert!(ts != es, "OBL:C13.expr.then_and_else_do_not_share_a_scope");
        // the lookup consequences, through the real resolve_name
        assert!(tc.block_saw_outer[0] && tc.block_saw_outer[1], "OBL:C13.expr.both_branches_see_the_enclosing_scope");
        assert!(!tc.block_saw_local[0] && !tc.block_saw_local[1], "OBL:C13.expr.a_name_declared_in_the_then_block_is_not_visible_in_the_else_block");
        let probe = Meta { node: Identifier(LOCAL), id: MetaId(901) };
        assert!(tc.type_info.scope_graph.resolve_name(f, &probe, true).is_none(), "OBL:C13.expr.block_local_names_do_not_leak_into_the_enclosing_scope");
        assert!(tc.if_else_counter == idx + 1, "OBL:C13.expr.if_else_counter_advances_once");
        assert!(matches!(r, Ok(d) if d == (tc.block_diverges[0] && tc.block_diverges[1])), "OBL:C13.expr.if_else_diverges_iff_both_branches_diverge");
        kani::cover!(tc.block_declares[0], "COV:C13.expr.then_block_declaring_a_name_reached");
    }

    #[kani::proof]
    #[kani::unwind(8)]
    fn c13_u2_if_without_else_scope() {
        let (mut tc, f) = checker();
        let before = tc.type_info.scope_graph.scopes.len();
        let ctx = Context { expected_type: Type::Var(0) };
        let r = tc.arm_if_else(f, &ctx, MetaId(100), &cond(), &blk(2), &None);
        assert!(fresh_child_of(&tc, block_scope(&tc, 2), f, before), "OBL:C13.expr.then_block_gets_a_fresh_child_of_the_enclosing_scope");
        assert!(tc.block_saw_outer[0] && !tc.block_saw_local[0], "OBL:C13.expr.both_branches_see_the_enclosing_scope");
        let probe = Meta { node: Identifier(LOCAL), id: MetaId(901) };
        assert!(tc.type_info.scope_graph.resolve_name(f, &probe, true).is_none(), "OBL:C13.expr.block_local_names_do_not_leak_into_the_enclosing_scope");
        assert!(matches!(r, Ok(false)), "OBL:C13.expr.if_without_else_never_diverges");
        kani::cover!(tc.block_declares[0], "COV:C13.expr.then_block_declaring_a_name_reached");
    }

    macro_rules! body_scope_case {
        ($name:ident, $which:expr) => {
    #[kani::proof]
    #[kani::unwind(8)]
    fn $name() {
        let which: u8 = $which;
        let (mut tc, f) = checker();
        let before = tc.type_info.scope_graph.scopes.len();
        let ctx = Context { expected_type: Type::Var(0) };
        let var = Meta { node: Identifier(LOCAL), id: MetaId(120) };
        let r = match which {
            0 => tc.arm_block(f, &ctx, MetaId(100), &blk(2)),
            1 => tc.arm_while(f, &ctx, MetaId(100), &cond(), &blk(2)),
            _ => tc.arm_for(f, &ctx, MetaId(100), &var, &cond(), &blk(2)),
        };
        let bs = block_scope(&tc, 2);
        assert!(r.is_ok(), "OBL:C13.expr.scope_opening_arm_succeeds_when_its_parts_do");
        assert!(fresh_child_of(&tc, bs, f, before), "OBL:C13.expr.body_gets_a_fresh_child_of_the_enclosing_scope");
        assert!(tc.block_saw_outer[0], "OBL:C13.expr.body_sees_the_enclosing_scope");
        if which == 2 {
            // the loop variable lives in the body scope, is visible in the body and nowhere else
            assert!(matches!(tc.log[1], Some(Seen::Var(LOCAL, s, Type::Var(_))) if Some(s) == bs), "OBL:C13.expr.loop_variable_is_declared_in_the_body_scope");
            assert!(tc.block_saw_local[0], "OBL:C13.expr.loop_variable_is_visible_in_the_body");
            assert!(matches!(tc.log[0], Some(Seen::Expr(1, s, Type::List(_))) if s == f), "OBL:C13.expr.iterated_expression_is_checked_in_the_enclosing_scope");
        } else {
            assert!(!tc.block_saw_local[0], "OBL:C13.expr.body_starts_without_local_names");
        }
        let probe = Meta { node: Identifier(LOCAL), id: MetaId(901) };
        assert!(tc.type_info.scope_graph.resolve_name(f, &probe, true).is_none(), "OBL:C13.expr.block_local_names_do_not_leak_into_the_enclosing_scope");
        kani::cover!(tc.block_declares[0], "COV:C13.expr.body_declaring_a_name_reached");
    }
        };
    }
    body_scope_case!(c13_u2_block_scope, 0);
    body_scope_case!(c13_u2_while_scope, 1);
    body_scope_case!(c13_u2_for_scope, 2);

    #[kani::proof]
    #[kani::unwind(8)]
    fn canary_c13_u2_if_else() {
        let (mut tc, f) = checker();
        let ctx = Context { expected_type: Type::Var(0) };
        let els = Some(blk(3));
        let _ = tc.arm_if_else(f, &ctx, MetaId(100), &cond(), &blk(2), &els);
        assert!(!tc.block_saw_outer[1], "CANARY:C13.expr.else_never_sees_the_enclosing_scope");
    }
}
