// K-ex unit `scope_graph` — assembled on every run by /verif/check.
// Text that replaced a fragment marker is verbatim source of /repo/src/typechecker/scope.rs.
#![allow(dead_code, unused_imports, unused_variables, unused_mut)]

macro_rules! ice {
    ($($t:tt)*) => {
        panic!("ice")
    };
}
pub(crate) use ice;

pub mod ast {
    #[derive(Clone, Copy, Debug, PartialEq, Eq, PartialOrd, Ord, Hash)]
    pub struct Identifier(pub u32);
    impl core::fmt::Display for Identifier {
        fn fmt(&self, f: &mut core::fmt::Formatter<'_>) -> core::fmt::Result {
            f.write_str("ident")
        }
    }
}

pub mod parser {
    // the real file
    #[path = "/repo/src/parser/meta.rs"]
    pub mod meta;
}

/// array-backed stand-in for std::collections::BTreeMap (capacity CAP, no heap)
pub mod shim {
    pub const CAP: usize = 5;

    #[derive(Clone)]
    pub struct BTreeMap<K, V> {
        pub items: [Option<(K, V)>; CAP],
    }
    pub enum Entry<'a, K, V> {
        Occupied(OccupiedEntry<'a, K, V>),
        Vacant(VacantEntry<'a, K, V>),
    }
    pub struct OccupiedEntry<'a, K, V> {
        m: &'a mut BTreeMap<K, V>,
        at: usize,
    }
    pub struct VacantEntry<'a, K, V> {
        m: &'a mut BTreeMap<K, V>,
        k: K,
    }
    impl<K: PartialEq, V> BTreeMap<K, V> {
        pub fn new() -> Self {
            BTreeMap { items: [const { None }; CAP] }
        }
        fn find(&self, k: &K) -> Option<usize> {
            let mut i = 0;
            while i < CAP {
                if let Some((kk, _)) = &self.items[i] {
                    if *kk == *k {
                        return Some(i);
                    }
                }
                i += 1;
            }
            None
        }
        pub fn len(&self) -> usize {
            let mut n = 0;
            let mut i = 0;
            while i < CAP {
                if self.items[i].is_some() {
                    n += 1;
                }
                i += 1;
            }
            n
        }
        pub fn get(&self, k: &K) -> Option<&V> {
            match self.find(k) {
                Some(i) => self.items[i].as_ref().map(|kv| &kv.1),
                None => None,
            }
        }
        pub fn get_mut(&mut self, k: &K) -> Option<&mut V> {
            match self.find(k) {
                Some(i) => self.items[i].as_mut().map(|kv| &mut kv.1),
                None => None,
            }
        }
        pub fn entry(&mut self, k: K) -> Entry<'_, K, V> {
            match self.find(&k) {
                Some(at) => Entry::Occupied(OccupiedEntry { m: self, at }),
                None => Entry::Vacant(VacantEntry { m: self, k }),
            }
        }
    }
    impl<'a, K, V> OccupiedEntry<'a, K, V> {
        pub fn get(&self) -> &V {
            match &self.m.items[self.at] {
                Some(kv) => &kv.1,
                None => unreachable!(),
            }
        }
        pub fn into_mut(self) -> &'a mut V {
            match &mut self.m.items[self.at] {
                Some(kv) => &mut kv.1,
                None => unreachable!(),
            }
        }
    }
    impl<'a, K, V> VacantEntry<'a, K, V> {
        pub fn insert(self, v: V) -> &'a mut V {
            let mut i = 0;
            let mut free = CAP;
            while i < CAP {
                if self.m.items[i].is_none() && free == CAP {
                    free = i;
                }
                i += 1;
            }
            assert!(free < CAP, "shim: map full");
            self.m.items[free] = Some((self.k, v));
            match &mut self.m.items[free] {
                Some(kv) => &mut kv.1,
                None => unreachable!(),
            }
        }
    }

    /// stand-in for the `doc: String` of a declaration
    #[derive(Clone, Copy, Debug, PartialEq, Eq)]
    pub struct String;
}

pub mod typechecker {
    pub mod scope {
        use crate::ast::Identifier;
        use crate::ice;
        use crate::parser::meta::{Meta, MetaId};
        use crate::shim::{BTreeMap, Entry, String};

        /*@STRUCT_SCOPEREF@*/

        /*@IMPL_SCOPEREF@*/

        /*@STRUCT_RESOLVEDNAME@*/

        /// shim of Declaration: same field names, reduced kinds
        #[derive(Clone, Debug, PartialEq, Eq)]
        pub struct Declaration {
            pub name: ResolvedName,
            pub kind: DeclarationKind,
            pub id: MetaId,
            pub scope: Option<ScopeRef>,
            pub doc: String,
        }
        #[derive(Clone, Copy, Debug, PartialEq, Eq)]
        pub enum DeclarationKind {
            Value,
            Function,
            Module,
            Stub,
        }

        /*@STRUCT_SCOPEGRAPH@*/

        /*@STRUCT_SCOPE@*/

        /*@ENUM_SCOPETYPE@*/

        /*@STRUCT_MODULESCOPE@*/

        impl ScopeGraph {
            /*@FN_NEW@*/

            /*@FN_WRAP@*/

            /*@FN_PARENT@*/

            /*@FN_RESOLVE_NAME@*/

            /*@FN_GET_DECLARATION@*/

            /*@FN_INSERT_IMPORT@*/

            /*@FN_INSERT_DECLARATION@*/

            /*@FN_PARENT_MODULE@*/
        }

        include!("harness.rs");

        /// C13-U2: the arms of `TypeChecker::expr` that open a new scope (block, if/else, while, for),
        /// verbatim, against the real ScopeGraph above and a TypeChecker stand-in whose `block` /
        /// `expr` / `insert_var` record the scope they are given.
        pub mod expr_unit {
            use super::{DeclarationKind, ResolvedName, ScopeGraph, ScopeRef, ScopeType};
            use crate::ast::Identifier;
            use crate::parser::meta::{Meta, MetaId};

            /// opaque syntax: the arms only pass these on
            #[derive(Clone, Debug)]
            pub struct Expr(pub u8);
            #[derive(Clone, Debug)]
            pub struct Block(pub u8);
            pub mod ast {
                pub use super::{Block, Expr};
            }

            #[derive(Clone, Copy, Debug, PartialEq, Eq)]
            pub enum Type {
                Bool,
                Unit,
                Var(u8),
                List(u8),
                Other,
            }
            impl Type {
                pub fn bool() -> Type {
                    Type::Bool
                }
                pub fn unit() -> Type {
                    Type::Unit
                }
                pub fn list(t: &Type) -> Type {
                    match t {
                        Type::Var(v) => Type::List(*v),
                        _ => Type::Other,
                    }
                }
            }
            impl From<&Type> for Type {
                fn from(t: &Type) -> Type {
                    *t
                }
            }
            #[derive(Clone)]
            pub struct Context {
                pub expected_type: Type,
            }
            impl Context {
                pub fn with_type(&self, t: impl Into<Type>) -> Context {
                    Context { expected_type: t.into() }
                }
            }
            #[derive(Debug)]
            pub struct TypeError;
            pub type TypeResult<T> = Result<T, TypeError>;

            pub struct Diverges {
                pub last: Option<(MetaId, bool)>,
            }
            impl Diverges {
                pub fn insert(&mut self, id: MetaId, d: bool) {
                    self.last = Some((id, d));
                }
            }
            pub struct TypeInfo {
                pub scope_graph: ScopeGraph,
                pub diverges: Diverges,
            }

            /// what the stand-in callees saw
            #[derive(Clone, Copy, Debug, PartialEq, Eq)]
            pub enum Seen {
                Expr(u8, ScopeRef, Type),
                Block(u8, ScopeRef, Type),
                Var(u32, ScopeRef, Type),
                Unify(Type, Type),
            }
            pub struct TypeChecker {
                pub type_info: TypeInfo,
                pub block_counter: usize,
                pub if_else_counter: usize,
                pub while_counter: usize,
                pub for_counter: usize,
                pub next_var: u8,
                pub log: [Option<Seen>; 6],
                pub n: usize,
                /// symbolic results of the callees
                pub expr_diverges: bool,
                pub block_diverges: [bool; 2],
                pub blocks_seen: usize,
                /// block k declares the name LOCAL in the scope it is given (as a `let` would)
                pub block_declares: [bool; 2],
                /// for each block: could it see LOCAL / OUTER when it was checked?
                pub block_saw_local: [bool; 2],
                pub block_saw_outer: [bool; 2],
            }
            pub const LOCAL: u32 = 7;
            pub const OUTER: u32 = 8;
            impl TypeChecker {
                fn record(&mut self, s: Seen) {
                    assert!(self.n < 6, "shim: log full");
                    self.log[self.n] = Some(s);
                    self.n += 1;
                }
                pub fn expr(&mut self, scope: ScopeRef, ctx: &Context, e: &Meta<Expr>) -> TypeResult<bool> {
                    self.record(Seen::Expr(e.node.0, scope, ctx.expected_type));
                    Ok(self.expr_diverges)
                }
                /// contract stand-in of TypeChecker::block: names are looked up from, and declared in,
                /// exactly the scope it is given (through the real ScopeGraph)
                pub fn block(&mut self, scope: ScopeRef, ctx: &Context, b: &Meta<Block>) -> TypeResult<bool> {
                    self.record(Seen::Block(b.node.0, scope, ctx.expected_type));
                    let k = self.blocks_seen;
                    assert!(k < 2, "shim: more than two blocks");
                    self.blocks_seen += 1;
                    let probe = |x: u32| Meta { node: Identifier(x), id: MetaId(900) };
                    self.block_saw_local[k] = self.type_info.scope_graph.resolve_name(scope, &probe(LOCAL), true).is_some();
                    self.block_saw_outer[k] = self.type_info.scope_graph.resolve_name(scope, &probe(OUTER), true).is_some();
                    if self.block_declares[k] {
                        let _ = self.type_info.scope_graph.insert_declaration(scope, &Meta { node: Identifier(LOCAL), id: MetaId(800 + k) }, DeclarationKind::Value, crate::shim::String, |_| false);
                    }
                    Ok(self.block_diverges[k])
                }
                pub fn unify(&mut self, a: &Type, b: &Type, _id: MetaId, _span: Option<()>) -> TypeResult<Type> {
                    self.record(Seen::Unify(*a, *b));
                    Ok(*b)
                }
                pub fn fresh_var(&mut self) -> Type {
                    self.next_var += 1;
                    Type::Var(self.next_var)
                }
                pub fn insert_var(&mut self, scope: ScopeRef, name: Meta<Identifier>, ty: Type) -> TypeResult<()> {
                    self.record(Seen::Var(name.node.0, scope, ty));
                    let _ = self.type_info.scope_graph.insert_declaration(scope, &name, DeclarationKind::Value, crate::shim::String, |_| false);
                    Ok(())
                }

                pub fn arm_block(&mut self, scope: ScopeRef, ctx: &Context, id: MetaId, b: &Meta<ast::Block>) -> TypeResult<bool>
                /*@ARM_BLOCK_BODY@*/

                pub fn arm_if_else(&mut self, scope: ScopeRef, ctx: &Context, id: MetaId, c: &Box<Meta<ast::Expr>>, t: &Meta<ast::Block>, e: &Option<Meta<ast::Block>>) -> TypeResult<bool>
                /*@ARM_IFELSE_BODY@*/

                pub fn arm_while(&mut self, scope: ScopeRef, ctx: &Context, id: MetaId, c: &Box<Meta<ast::Expr>>, b: &Meta<ast::Block>) -> TypeResult<bool>
                /*@ARM_WHILE_BODY@*/

                pub fn arm_for(&mut self, scope: ScopeRef, ctx: &Context, id: MetaId, name: &Meta<Identifier>, e: &Box<Meta<ast::Expr>>, b: &Meta<ast::Block>) -> TypeResult<bool>
                /*@ARM_FOR_BODY@*/
            }
            // the patterns the parameter lists above were written for (assembly fails if they change)
            pub const PATTERNS: [&str; 4] = [/*@ARM_BLOCK_PAT@*/, /*@ARM_IFELSE_PAT@*/, /*@ARM_WHILE_PAT@*/, /*@ARM_FOR_PAT@*/];

            include!("harness_expr.rs");
        }
    }

}

fn main() {}
