// K-ex unit `scope_graph` — assembled on every run by /verif/check.
// Text that replaced a fragment marker is verbatim source of /repo/src/typechecker/scope.rs.
#![allow(dead_code, unused_imports, unused_variables, unused_mut)]

macro_rules! ice {
    ($($t:tt)*) => {
        panic!("ice")
    };
}
pub(crate) use ice;

pub mod ast {
    #[derive(Clone, Copy, Debug, PartialEq, Eq, PartialOrd, Ord, Hash)]
    pub struct Identifier(pub u32);
    impl core::fmt::Display for Identifier {
        fn fmt(&self, f: &mut core::fmt::Formatter<'_>) -> core::fmt::Result {
            f.write_str("ident")
        }
    }
}

pub mod parser {
    // the real file
    #[path = "/repo/src/parser/meta.rs"]
    pub mod meta;
}

/// array-backed stand-in for std::collections::BTreeMap (capacity CAP, no heap)
pub mod shim {
    pub const CAP: usize = 5;

    #[derive(Clone)]
    pub struct BTreeMap<K, V> {
        pub items: [Option<(K, V)>; CAP],
    }
    pub enum Entry<'a, K, V> {
        Occupied(OccupiedEntry<'a, K, V>),
        Vacant(VacantEntry<'a, K, V>),
    }
    pub struct OccupiedEntry<'a, K, V> {
        m: &'a mut BTreeMap<K, V>,
        at: usize,
    }
    pub struct VacantEntry<'a, K, V> {
        m: &'a mut BTreeMap<K, V>,
        k: K,
    }
    impl<K: PartialEq, V> BTreeMap<K, V> {
        pub fn new() -> Self {
            BTreeMap { items: [const { None }; CAP] }
        }
        fn find(&self, k: &K) -> Option<usize> {
            let mut i = 0;
            while i < CAP {
                if let Some((kk, _)) = &self.items[i] {
                    if *kk == *k {
                        return Some(i);
                    }
                }
                i += 1;
            }
            None
        }
        pub fn len(&self) -> usize {
            let mut n = 0;
            let mut i = 0;
            while i < CAP {
                if self.items[i].is_some() {
                    n += 1;
                }
                i += 1;
            }
            n
        }
        pub fn get(&self, k: &K) -> Option<&V> {
            match self.find(k) {
                Some(i) => self.items[i].as_ref().map(|kv| &kv.1),
                None => None,
            }
        }
        pub fn get_mut(&mut self, k: &K) -> Option<&mut V> {
            match self.find(k) {
                Some(i) => self.items[i].as_mut().map(|kv| &mut kv.1),
                None => None,
            }
        }
        pub fn entry(&mut self, k: K) -> Entry<'_, K, V> {
            match self.find(&k) {
                Some(at) => Entry::Occupied(OccupiedEntry { m: self, at }),
                None => Entry::Vacant(VacantEntry { m: self, k }),
            }
        }
    }
    impl<'a, K, V> OccupiedEntry<'a, K, V> {
        pub fn get(&self) -> &V {
            match &self.m.items[self.at] {
                Some(kv) => &kv.1,
                None => unreachable!(),
            }
        }
        pub fn into_mut(self) -> &'a mut V {
            match &mut self.m.items[self.at] {
                Some(kv) => &mut kv.1,
                None => unreachable!(),
            }
        }
    }
    impl<'a, K, V> VacantEntry<'a, K, V> {
        pub fn insert(self, v: V) -> &'a mut V {
            let mut i = 0;
            let mut free = CAP;
            while i < CAP {
                if self.m.items[i].is_none() && free == CAP {
                    free = i;
                }
                i += 1;
            }
            assert!(free < CAP, "shim: map full");
            self.m.items[free] = Some((self.k, v));
            match &mut self.m.items[free] {
                Some(kv) => &mut kv.1,
                None => unreachable!(),
            }
        }
    }

    /// stand-in for the `doc: String` of a declaration
    #[derive(Clone, Copy, Debug, PartialEq, Eq)]
    pub struct String;
}

pub mod typechecker {
    pub mod scope {
        use crate::ast::Identifier;
        use crate::ice;
        use crate::parser::meta::{Meta, MetaId};
        use crate::shim::{BTreeMap, Entry, String};

        /*@STRUCT_SCOPEREF@*/

        /*@IMPL_SCOPEREF@*/

        /*@STRUCT_RESOLVEDNAME@*/

        /// shim of Declaration: same field names, reduced kinds
        #[derive(Clone, Debug, PartialEq, Eq)]
        pub struct Declaration {
            pub name: ResolvedName,
            pub kind: DeclarationKind,
            pub id: MetaId,
            pub scope: Option<ScopeRef>,
            pub doc: String,
        }
        #[derive(Clone, Copy, Debug, PartialEq, Eq)]
        pub enum DeclarationKind {
            Value,
            Function,
            Module,
            Stub,
        }

        /*@STRUCT_SCOPEGRAPH@*/

        /*@STRUCT_SCOPE@*/

        /*@ENUM_SCOPETYPE@*/

        /*@STRUCT_MODULESCOPE@*/

        impl ScopeGraph {
            /*@FN_NEW@*/

            /*@FN_WRAP@*/

            /*@FN_PARENT@*/

            /*@FN_RESOLVE_NAME@*/

            /*@FN_GET_DECLARATION@*/

            /*@FN_INSERT_IMPORT@*/

            /*@FN_INSERT_DECLARATION@*/

            /*@FN_PARENT_MODULE@*/
        }

        include!("harness.rs");
    }
}

fn main() {}
