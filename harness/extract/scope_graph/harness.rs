// Contracts (C13-U1, C18-U2): name lookup in the scope graph.
// Postcondition from the property statement: "a bare name refers to exactly the item the lookup
// rules select: declarations of the innermost enclosing scope, then that scope's imports, then
// outward ... Same-named items in different modules or scopes never interfere, a name the rules
// do not reach is an error"; with `recurse = false`: "later path segments are looked up only among
// the direct members of the item before them".
mod h {
    use super::*;

    fn ident(i: u32, id: usize) -> Meta<Identifier> {
        Meta { node: Identifier(i), id: MetaId(id) }
    }

    // NS scopes, ND declaration attempts, NI import attempts
    struct World<const NS: usize, const ND: usize, const NI: usize> {
        g: ScopeGraph,
        parent: [Option<usize>; NS],
        d_scope: [usize; ND],
        d_ident: [u32; ND],
        d_ok: [bool; ND],
        i_scope: [usize; NI],
        i_target: [usize; NI],
        i_ok: [bool; NI],
    }

    /// every scope tree over 4 scopes, every placement of <= 3 declarations over 2 identifiers,
    /// every placement of <= 2 imports of declared items
    fn any_world<const NS: usize, const ND: usize, const NI: usize>() -> World<NS, ND, NI> {
        let mut g = ScopeGraph::new();
        let mut parent = [None; NS];
        let mut s = 1;
        while s < NS {
            let p: usize = kani::any();
            kani::assume(p < s);
            let r = g.wrap(ScopeRef(p), ScopeType::Block(s));
            assert!(r.0 == s && g.parent(r) == Some(ScopeRef(p)) && p < r.0, "OBL:C13.scope.wrap_creates_child_with_smaller_parent");
            parent[s] = Some(p);
            s += 1;
        }
        let mut d_scope = [0; ND];
        let mut d_ident = [0; ND];
        let mut d_ok = [false; ND];
        let mut k = 0;
        while k < ND {
            let present: bool = kani::any();
            let sc: usize = kani::any();
            let id: u32 = kani::any();
            kani::assume(sc < NS && id < 2);
            d_scope[k] = sc;
            d_ident[k] = id;
            if present {
                // model: the insertion succeeds iff (scope, ident) is not yet declared
                let mut dup = None;
                let mut j = 0;
                while j < k {
                    if d_ok[j] && d_scope[j] == sc && d_ident[j] == id {
                        dup = Some(j);
                    }
                    j += 1;
                }
                let res = g.insert_declaration(ScopeRef(sc), &ident(id, 10 + k), DeclarationKind::Function, String, |_| false);
                match (dup, res) {
                    (None, Ok(d)) => {
                        assert!(d.id == MetaId(10 + k) && d.name == ResolvedName { scope: ScopeRef(sc), ident: Identifier(id) }, "OBL:C13.scope.insert_declaration_stores_under_scope_and_ident");
                        d_ok[k] = true;
                    }
                    (Some(j), Err(old)) => assert!(old == MetaId(10 + j), "OBL:C13.scope.duplicate_declaration_rejected_with_first_location"),
                    _ => assert!(false, "OBL:C13.scope.insert_declaration_fails_exactly_on_duplicates"),
                }
            }
            k += 1;
        }
        let mut i_scope = [0; NI];
        let mut i_target = [0; NI];
        let mut i_ok = [false; NI];
        let mut m = 0;
        while m < NI {
            let present: bool = kani::any();
            let sc: usize = kani::any();
            let t: usize = kani::any();
            kani::assume(sc < NS && t < ND);
            i_scope[m] = sc;
            i_target[m] = t;
            if present && d_ok[t] {
                let mut dup = false;
                let mut j = 0;
                while j < m {
                    if i_ok[j] && i_scope[j] == sc && d_ident[i_target[j]] == d_ident[t] {
                        dup = true;
                    }
                    j += 1;
                }
                let name = ResolvedName { scope: ScopeRef(d_scope[t]), ident: Identifier(d_ident[t]) };
                let res = g.insert_import(ScopeRef(sc), MetaId(20 + m), name);
                assert!(res.is_ok() == !dup, "OBL:C13.scope.insert_import_fails_exactly_on_duplicate_import");
                i_ok[m] = res.is_ok();
            }
            m += 1;
        }
        World { g, parent, d_scope, d_ident, d_ok, i_scope, i_target, i_ok }
    }

    /// the lookup rule of the property statement, over the model arrays
    fn model_resolve<const NS: usize, const ND: usize, const NI: usize>(w: &World<NS, ND, NI>, mut s: usize, x: u32, recurse: bool) -> Option<usize> {
        let mut steps = 0;
        while steps < NS {
            let mut k = 0;
            while k < ND {
                if w.d_ok[k] && w.d_scope[k] == s && w.d_ident[k] == x {
                    return Some(k);
                }
                k += 1;
            }
            if !recurse {
                return None;
            }
            let mut m = 0;
            while m < NI {
                if w.i_ok[m] && w.i_scope[m] == s && w.d_ident[w.i_target[m]] == x {
                    return Some(w.i_target[m]);
                }
                m += 1;
            }
            match w.parent[s] {
                None => return None,
                Some(p) => s = p,
            }
            steps += 1;
        }
        None
    }

    macro_rules! resolve_name {
        ($name:ident, $ns:expr, $nd:expr, $ni:expr, $unwind:expr) => {
    #[kani::proof]
    #[kani::unwind($unwind)]
    fn $name() {
        const NS: usize = $ns;
        let w = any_world::<$ns, $nd, $ni>();
        let qs: usize = kani::any();
        let qx: u32 = kani::any();
        let recurse: bool = kani::any();
        kani::assume(qs < NS && qx < 2);
        let got = w.g.resolve_name(ScopeRef(qs), &ident(qx, 99), recurse);
        let want = model_resolve(&w, qs, qx, recurse);
        match (&got, want) {
            (None, None) => {}
            (Some(d), Some(k)) => {
                assert!(d.id == MetaId(10 + k), "OBL:C13.scope.resolve_name_selects_declarations_then_imports_then_outward");
                assert!(d.name.ident == Identifier(qx), "OBL:C13.scope.resolved_item_has_the_requested_name");
            }
            _ => assert!(false, "OBL:C13.scope.resolve_name_finds_exactly_the_reachable_names"),
        }
        kani::cover!(matches!(got, Some(ref d) if d.name.scope != ScopeRef(qs)) && recurse, "COV:C13.scope.found_in_outer_scope_or_via_import");
        kani::cover!(got.is_none() && !recurse && model_resolve(&w, qs, qx, true).is_some(), "COV:C13.scope.nonrecursive_lookup_misses_outer_item");
        kani::cover!(w.i_ok[0] && matches!(got, Some(ref d) if d.id == MetaId(10 + w.i_target[0]) && w.d_scope[w.i_target[0]] != qs), "COV:C13.scope.import_hit_reached");
    }
        };
    }
    resolve_name!(c13_u1_resolve_name_3_2_1, 3, 2, 1, 6);
    resolve_name!(c13_u1_resolve_name_4_3_2, 4, 3, 2, 7);

    #[kani::proof]
    #[kani::unwind(7)]
    fn canary_c13_u1_resolve_name() {
        let w = any_world::<3, 2, 1>();
        let qs: usize = kani::any();
        kani::assume(qs < 3);
        let got = w.g.resolve_name(ScopeRef(qs), &ident(0, 99), true);
        assert!(got.is_none(), "CANARY:C13.scope.resolve_name_never_finds_anything");
    }

    /// insert_declaration with `update_if`: an existing stub may be completed, anything else is a duplicate.
    #[kani::proof]
    #[kani::unwind(7)]
    fn c18_u2_insert_declaration_update_rule() {
        let mut g = ScopeGraph::new();
        let first_is_stub: bool = kani::any();
        let k1 = if first_is_stub { DeclarationKind::Stub } else { DeclarationKind::Function };
        let r1 = g.insert_declaration(ScopeRef::GLOBAL, &ident(1, 10), k1, String, |k| matches!(k, DeclarationKind::Stub)).map(|d| d.id);
        assert!(r1 == Ok(MetaId(10)), "OBL:C18.scope.first_declaration_accepted");
        let r2 = g.insert_declaration(ScopeRef::GLOBAL, &ident(1, 11), DeclarationKind::Function, String, |k| matches!(k, DeclarationKind::Stub)).map(|d| (d.id, d.kind));
        if first_is_stub {
            assert!(r2 == Ok((MetaId(10), DeclarationKind::Function)), "OBL:C18.scope.stub_is_completed_in_place");
        } else {
            assert!(r2 == Err(MetaId(10)), "OBL:C18.scope.name_already_taken_is_rejected");
        }
        assert!(g.declarations.len() == 1, "OBL:C18.scope.no_second_entry_for_the_same_name");
        kani::cover!(first_is_stub, "COV:C18.scope.stub_completion_reached");
    }

    /// parent_module: the declaration of the module enclosing the nearest enclosing module.
    #[kani::proof]
    #[kani::unwind(7)]
    fn c13_u1_parent_module() {
        let mut g = ScopeGraph::new();
        // pkg (scope 1) contains module a (scope 2) contains a block (scope 3)
        let pkg_name = ResolvedName { scope: ScopeRef::GLOBAL, ident: Identifier(1) };
        let a_name = ResolvedName { scope: ScopeRef(1), ident: Identifier(2) };
        let _ = g.insert_declaration(ScopeRef::GLOBAL, &ident(1, 10), DeclarationKind::Module, String, |_| false);
        let pkg = g.wrap(ScopeRef::GLOBAL, ScopeType::Module(ModuleScope { name: pkg_name, parent_module: None }));
        let _ = g.insert_declaration(pkg, &ident(2, 11), DeclarationKind::Module, String, |_| false);
        let a = g.wrap(pkg, ScopeType::Module(ModuleScope { name: a_name, parent_module: Some(pkg) }));
        let blk = g.wrap(a, ScopeType::Block(0));
        let from_block: bool = kani::any();
        let d = g.parent_module(if from_block { blk } else { a });
        assert!(matches!(&d, Some(d) if d.id == MetaId(10) && d.name == pkg_name), "OBL:C13.scope.parent_module_is_the_enclosing_modules_parent");
        assert!(g.parent_module(pkg).is_none(), "OBL:C13.scope.package_root_has_no_parent_module");
        kani::cover!(from_block, "COV:C13.scope.parent_module_from_block_reached");
    }
}
