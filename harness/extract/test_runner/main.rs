// K-ex unit `test_runner` — assembled on every run by /verif/check.
// Text that replaced a fragment marker is verbatim source of /repo.
#![allow(dead_code, unused_imports, unused_variables, unused_mut, unused_macros)]

// console output is not part of the property
macro_rules! print {
    ($($t:tt)*) => {};
}
macro_rules! println {
    ($($t:tt)*) => {};
}
macro_rules! eprintln {
    ($($t:tt)*) => {};
}

pub mod value {
    #[path = "/repo/src/value/verdict.rs"]
    pub mod verdict;
    pub use verdict::Verdict;
}

pub mod runtime {
    pub trait OptCtx: 'static {
        type Ctx;
        fn get_context(&mut self) -> &mut Self::Ctx;
    }
    pub struct NoCtx;
    impl OptCtx for NoCtx {
        type Ctx = NoCtx;
        fn get_context(&mut self) -> &mut NoCtx {
            self
        }
    }
}

/// what the shimmed environment observed
pub mod log {
    pub const NF: usize = 4;
    pub static mut ACCEPTS: [bool; NF] = [true; NF];
    pub static mut CALLS: [u8; NF] = [0; NF];
    pub static mut ORDER: [usize; 8] = [usize::MAX; 8];
    pub static mut N_ORDER: usize = 0;
}

pub mod codegen {
    use crate::log::*;
    use crate::runtime::OptCtx;
    use crate::value::Verdict;
    use core::marker::PhantomData;

    pub struct TypedFunc<Ctx, F> {
        pub id: usize,
        _p: PhantomData<(Ctx, F)>,
    }
    impl<C, F> TypedFunc<C, F> {
        pub fn with_id(id: usize) -> Self {
            TypedFunc { id, _p: PhantomData }
        }
    }
    impl<C: OptCtx> TypedFunc<C, fn() -> Verdict<(), ()>> {
        pub fn call_tuple(&self, _ctx: &mut C::Ctx, _args: ()) -> Verdict<(), ()> {
            unsafe {
                CALLS[self.id] += 1;
                if N_ORDER < 8 {
                    ORDER[N_ORDER] = self.id;
                }
                N_ORDER += 1;
                if ACCEPTS[self.id] { Verdict::Accept(()) } else { Verdict::Reject(()) }
            }
        }
    }

    pub struct Functions {
        pub names: Vec<String>,
    }
    impl Functions {
        pub fn keys(&self) -> std::slice::Iter<'_, String> {
            self.names.iter()
        }
    }
    pub struct Module<Ctx> {
        pub functions: Functions,
        pub _p: PhantomData<Ctx>,
    }
    impl<Ctx: OptCtx> Module<Ctx> {
        /// shim of Module::get_function: the handle of the function registered as `pkg.<name>`
        pub fn get_function<F>(&mut self, name: &str) -> Result<TypedFunc<Ctx, F>, ()> {
            let mut i = 0;
            while i < self.functions.names.len() {
                if self.functions.names[i].strip_prefix("pkg.") == Some(name) {
                    return Ok(TypedFunc { id: i, _p: PhantomData });
                }
                i += 1;
            }
            Err(())
        }
    }

    /// U1: the real run_tests / TestCase against a shim get_tests (discovery is U2's subject)
    pub mod testing_u1 {
        use super::{Module, TypedFunc};
        use crate::{runtime::OptCtx, value::Verdict};

        /*@STRUCT_TESTCASE@*/

        /*@IMPL_TESTCASE0@*/

        /*@IMPL_TESTCASE1@*/

        /// shim of get_tests: three test cases (function ids 2, 3, 0 - the sorted order U2 proves)
        pub(crate) fn get_tests<Ctx: OptCtx>(module: &mut Module<Ctx>) -> impl Iterator<Item = TestCase<Ctx>> + use<'_, Ctx> {
            [2usize, 3, 0].into_iter().map(|id| TestCase::new(String::new(), TypedFunc::with_id(id)))
        }

        /*@FN_RUN_TESTS@*/

        include!("harness_u1.rs");
    }

    /// U2: the real get_tests (name filter, order, display names)
    pub mod testing {
        use super::{Module, TypedFunc};
        use crate::{runtime::OptCtx, value::Verdict};

        /*@STRUCT_TESTCASE@*/

        /*@IMPL_TESTCASE0@*/

        /*@IMPL_TESTCASE1@*/

        /*@FN_GET_TESTS@*/

        impl<C: OptCtx> TestCase<C> {
            /// harness accessor: which function the discovered test case is bound to
            pub fn func_id(&self) -> usize {
                self.func.id
            }
        }

        include!("harness.rs");
    }
}

pub mod cli {
    use crate::runtime::OptCtx;

    #[derive(Clone, Copy, Debug, PartialEq, Eq)]
    pub enum ExitCode {
        SUCCESS,
        FAILURE,
    }
    pub struct RotoReport;
    impl core::fmt::Display for RotoReport {
        fn fmt(&self, f: &mut core::fmt::Formatter<'_>) -> core::fmt::Result {
            Ok(())
        }
    }
    pub struct Runtime<C> {
        pub inner_result_is_ok: bool,
        pub _c: C,
    }
    /// shim: the outcome of the sub-command, chosen by the harness
    fn cli_inner(rt: &Runtime<impl OptCtx>) -> Result<(), RotoReport> {
        if rt.inner_result_is_ok { Ok(()) } else { Err(RotoReport) }
    }

    /*@FN_CLI@*/

    #[kani::proof]
    fn c19_u3_cli_exit_code() {
        let ok: bool = kani::any();
        let rt = Runtime { inner_result_is_ok: ok, _c: crate::runtime::NoCtx };
        let code = cli(&rt);
        assert!((code == ExitCode::SUCCESS) == ok, "OBL:C19.cli.exit_success_iff_subcommand_succeeded");
        assert!((code == ExitCode::FAILURE) == !ok, "OBL:C19.cli.exit_failure_iff_subcommand_failed");
        kani::cover!(!ok, "COV:C19.cli.failure_reached");
    }
}

fn main() {}
