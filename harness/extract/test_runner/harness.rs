// Contracts (C19): "executes every test block exactly once, in a deterministic order, and reports
// success if and only if every block ended in accept".
mod h {
    use super::*;
    use crate::log::*;
    use crate::runtime::NoCtx;
    use core::marker::PhantomData;

    fn module() -> Module<NoCtx> {
        // two modules, a helper function, names that sort differently from their insertion order
        Module {
            functions: crate::codegen::Functions {
                names: vec!["pkg.test#zeta".to_string(), "pkg.helper".to_string(), "pkg.m.test#alpha".to_string(), "pkg.test#beta".to_string()],
            },
            _p: PhantomData,
        }
    }
    // sorted full names: pkg.m.test#alpha (2) < pkg.test#beta (3) < pkg.test#zeta (0)
    const SORTED: [usize; 3] = [2, 3, 0];

    #[kani::proof]
    #[kani::unwind(20)]
    fn c19_u1_run_tests() {
        let acc: [bool; NF] = kani::any();
        unsafe {
            ACCEPTS = acc;
            CALLS = [0; NF];
            N_ORDER = 0;
        }
        let mut m = module();
        let res = run_tests::<NoCtx>(&mut m, NoCtx);
        let (calls, order, n) = unsafe { (CALLS, ORDER, N_ORDER) };
        assert!(calls[0] == 1 && calls[2] == 1 && calls[3] == 1, "OBL:C19.tests.every_test_block_runs_exactly_once");
        assert!(calls[1] == 0, "OBL:C19.tests.non_test_functions_are_not_run");
        assert!(n == 3 && order[0] == SORTED[0] && order[1] == SORTED[1] && order[2] == SORTED[2], "OBL:C19.tests.deterministic_sorted_order");
        assert!(res.is_ok() == (acc[0] && acc[2] && acc[3]), "OBL:C19.tests.success_iff_every_block_accepted");
        kani::cover!(res.is_err() && acc[0] && acc[3], "COV:C19.tests.single_reject_in_submodule_reached");
        kani::cover!(res.is_ok(), "COV:C19.tests.all_accept_reached");
    }

    #[kani::proof]
    #[kani::unwind(20)]
    fn c19_u2_get_tests_names() {
        let mut m = module();
        let mut names: [Option<String>; 4] = [None, None, None, None];
        let mut i = 0;
        for t in get_tests::<NoCtx>(&mut m) {
            if i < 4 {
                names[i] = Some(t.name().to_string());
            }
            i += 1;
        }
        assert!(i == 3, "OBL:C19.tests.discovers_exactly_the_test_blocks");
        assert!(names[0].as_deref() == Some("pkg.m.alpha") && names[1].as_deref() == Some("pkg.beta") && names[2].as_deref() == Some("pkg.zeta"), "OBL:C19.tests.display_names_in_sorted_order_without_marker");
        kani::cover!(i == 3, "COV:C19.tests.three_tests_reached");
    }

    #[kani::proof]
    #[kani::unwind(20)]
    fn canary_c19_u1_run_tests() {
        let acc: [bool; NF] = kani::any();
        unsafe {
            ACCEPTS = acc;
            CALLS = [0; NF];
            N_ORDER = 0;
        }
        let mut m = module();
        let res = run_tests::<NoCtx>(&mut m, NoCtx);
        assert!(res.is_ok(), "CANARY:C19.tests.always_succeeds");
    }
}
