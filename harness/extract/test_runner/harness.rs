// Contracts (C19-U2): test discovery - exactly the functions whose last path segment starts with
// `test#`, in sorted order of their full names, displayed without the marker.
mod h {
    use super::*;
    use crate::runtime::NoCtx;
    use core::marker::PhantomData;

    fn module() -> Module<NoCtx> {
        Module {
            functions: crate::codegen::Functions { names: vec!["pkg.test#z".to_string(), "pkg.h".to_string(), "pkg.m.test#a".to_string()] },
            _p: PhantomData,
        }
    }

    #[kani::proof]
    #[kani::unwind(16)]
    fn c19_u2_get_tests_names() {
        let mut m = module();
        let mut names: [Option<String>; 3] = [None, None, None];
        let mut ids = [usize::MAX; 3];
        let mut i = 0;
        for t in get_tests::<NoCtx>(&mut m) {
            if i < 3 {
                names[i] = Some(t.name().to_string());
                ids[i] = t.func_id();
            }
            i += 1;
        }
        assert!(i == 2, "OBL:C19.tests.discovers_exactly_the_test_blocks");
        assert!(ids[0] == 2 && ids[1] == 0, "OBL:C19.tests.discovered_in_sorted_order_of_full_names");
        assert!(names[0].as_deref() == Some("pkg.m.a") && names[1].as_deref() == Some("pkg.z"), "OBL:C19.tests.display_names_without_marker");
        kani::cover!(i == 2, "COV:C19.tests.two_tests_reached");
    }
}
