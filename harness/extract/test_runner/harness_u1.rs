// Contracts (C19-U1): "executes every test block exactly once, in a deterministic order, and reports
// success if and only if every block ended in accept".
mod h {
    use super::*;
    use crate::log::*;
    use crate::runtime::NoCtx;
    use core::marker::PhantomData;

    fn module() -> Module<NoCtx> {
        Module { functions: crate::codegen::Functions { names: Vec::new() }, _p: PhantomData }
    }

    #[kani::proof]
    #[kani::unwind(6)]
    fn c19_u1_run_tests() {
        let acc: [bool; NF] = kani::any();
        unsafe {
            ACCEPTS = acc;
            CALLS = [0; NF];
            N_ORDER = 0;
        }
        let mut m = module();
        let res = run_tests::<NoCtx>(&mut m, NoCtx);
        let (calls, order, n) = unsafe { (CALLS, ORDER, N_ORDER) };
        assert!(calls[0] == 1 && calls[2] == 1 && calls[3] == 1, "OBL:C19.tests.every_discovered_test_runs_exactly_once");
        assert!(calls[1] == 0, "OBL:C19.tests.nothing_else_is_run");
        assert!(n == 3 && order[0] == 2 && order[1] == 3 && order[2] == 0, "OBL:C19.tests.run_in_the_order_discovered");
        assert!(res.is_ok() == (acc[0] && acc[2] && acc[3]), "OBL:C19.tests.success_iff_every_block_accepted");
        kani::cover!(res.is_err() && acc[0] && acc[3], "COV:C19.tests.single_reject_reached");
        kani::cover!(res.is_ok(), "COV:C19.tests.all_accept_reached");
    }

    #[kani::proof]
    #[kani::unwind(6)]
    fn canary_c19_u1_run_tests() {
        let acc: [bool; NF] = kani::any();
        unsafe {
            ACCEPTS = acc;
            CALLS = [0; NF];
            N_ORDER = 0;
        }
        let mut m = module();
        let res = run_tests::<NoCtx>(&mut m, NoCtx);
        assert!(res.is_ok(), "CANARY:C19.tests.always_succeeds");
    }
}
