// K-ex unit `list_locks` — assembled on every run by /verif/check.
// Text that replaced a fragment marker is verbatim source of /repo/src/value/list.rs.
#![allow(dead_code, unused_imports, unused_variables, unused_mut, unused_unsafe)]

pub mod sync {
    use core::cell::{Cell, UnsafeCell};

    /// identity-carrying stand-in for std::sync::Arc (never freed)
    pub struct Arc<T>(*const T);
    impl<T> Arc<T> {
        pub fn new(t: T) -> Self {
            Arc(Box::leak(Box::new(t)) as *const T)
        }
        pub fn ptr_eq(a: &Self, b: &Self) -> bool {
            core::ptr::eq(a.0, b.0)
        }
    }
    impl<T> Clone for Arc<T> {
        fn clone(&self) -> Self {
            Arc(self.0)
        }
    }
    impl<T> core::ops::Deref for Arc<T> {
        type Target = T;
        fn deref(&self) -> &T {
            unsafe { &*self.0 }
        }
    }

    /// stand-in for std::sync::Mutex: a second lock() while held is the failing obligation
    pub struct Mutex<T> {
        pub locked: Cell<bool>,
        pub lock_count: Cell<u32>,
        data: UnsafeCell<T>,
    }
    pub struct MutexGuard<'a, T> {
        m: &'a Mutex<T>,
    }
    #[derive(Debug)]
    pub struct PoisonError;
    impl<T> Mutex<T> {
        pub fn new(t: T) -> Self {
            Mutex { locked: Cell::new(false), lock_count: Cell::new(0), data: UnsafeCell::new(t) }
        }
        pub fn lock(&self) -> Result<MutexGuard<'_, T>, PoisonError> {
            assert!(!self.locked.get(), "OBL:C15.lock.never_locks_a_mutex_it_already_holds");
            self.locked.set(true);
            self.lock_count.set(self.lock_count.get() + 1);
            Ok(MutexGuard { m: self })
        }
    }
    impl<'a, T> Drop for MutexGuard<'a, T> {
        fn drop(&mut self) {
            self.m.locked.set(false);
        }
    }
    impl<'a, T> core::ops::Deref for MutexGuard<'a, T> {
        type Target = T;
        fn deref(&self) -> &T {
            unsafe { &*self.m.data.get() }
        }
    }
    impl<'a, T> core::ops::DerefMut for MutexGuard<'a, T> {
        fn deref_mut(&mut self) -> &mut T {
            unsafe { &mut *self.m.data.get() }
        }
    }
}

pub mod value {
    use core::ptr::NonNull;

    pub type CloneFn = unsafe extern "C" fn(*mut (), *const ());
    pub type DropFn = unsafe extern "C" fn(*mut ());
    pub type EqFn = unsafe extern "C" fn(*const (), *const ()) -> bool;

    #[derive(Clone)]
    pub struct VTable {
        pub size: usize,
        pub align: usize,
        pub clone_fn: Option<CloneFn>,
        pub drop_fn: Option<DropFn>,
        pub eq_fn: EqFn,
    }
    impl VTable {
        pub fn size(&self) -> usize {
            self.size
        }
        pub fn align(&self) -> usize {
            self.align
        }
    }

    pub trait Value {
        type Transformed;
    }
    impl Value for u32 {
        type Transformed = u32;
    }

    /// opaque: list_get only uses its address
    pub struct RotoOption<T>(pub [u64; 2], pub core::marker::PhantomData<T>);

    pub const CAP: usize = 4;

    /// shim of RawList (real text verified in C15-K1): up to CAP u32 elements
    pub struct RawList {
        pub ptr: NonNull<()>,
        pub len: usize,
        pub vtable: VTable,
        pub store: [u32; CAP],
    }
    impl RawList {
        pub fn new(vtable: VTable) -> Self {
            RawList { ptr: NonNull::dangling(), len: 0, vtable, store: [0; CAP] }
        }
        pub fn fix(&mut self) {
            self.ptr = NonNull::from(&mut self.store).cast::<()>();
        }
        pub fn len(&self) -> usize {
            self.len
        }
        pub fn get(&self, idx: usize) -> Option<NonNull<()>> {
            if idx >= self.len {
                return None;
            }
            Some(NonNull::from(&self.store[idx]).cast::<()>())
        }
        pub fn is_empty(&self) -> bool {
            self.len == 0
        }
        pub fn capacity(&self) -> usize {
            CAP
        }
        pub unsafe fn push(&mut self, elem_ptr: NonNull<()>) {
            assert!(self.len < CAP, "shim RawList full");
            self.store[self.len] = unsafe { *(elem_ptr.as_ptr() as *const u32) };
            self.len += 1;
        }
        pub fn swap(&self, _i: usize, _j: usize) {}
        pub unsafe fn contains(&self, item: NonNull<()>) -> bool {
            unsafe { self.index(item).is_some() }
        }
        pub unsafe fn index(&self, item: NonNull<()>) -> Option<usize> {
            let x = unsafe { *(item.as_ptr() as *const u32) };
            let mut i = 0;
            while i < CAP {
                if i < self.len && self.store[i] == x {
                    return Some(i);
                }
                i += 1;
            }
            None
        }
        pub unsafe fn extend(&mut self, other: &Self) {
            let mut i = 0;
            while i < other.len {
                assert!(self.len < CAP, "shim RawList full");
                self.store[self.len] = other.store[i];
                self.len += 1;
                i += 1;
            }
        }
    }

    pub mod list {
        use crate::sync::{Arc, Mutex};
        use crate::value::{RawList, VTable};
        use core::ptr::NonNull;

        type T = ();

        pub mod ffi {
            use super::ErasedList;
            use crate::value::RotoOption;
            type T = ();

            /*@FN_LIST_GET@*/
        }

        pub mod boundary {
            use super::ErasedList;
            use crate::sync::Arc;
            use crate::value::Value;
            use core::marker::PhantomData;

            /*@STRUCT_LIST@*/

            impl<T: Value> List<T> {
                pub fn from_erased(inner: ErasedList) -> Self {
                    List { inner, _phantom: PhantomData }
                }
            }

            impl<T: Value> PartialEq for List<T>
            where
                T::Transformed: PartialEq,
            {
                /*@FN_LIST_EQ@*/
            }
        }

        /*@STRUCT_ERASED@*/

        impl PartialEq for ErasedList {
            /*@FN_ERASED_EQ@*/
        }

        // the whole inherent impl (so that helpers a method may call are present)
        /*@IMPL_ERASEDLIST@*/

        include!("harness.rs");
    }
}

fn main() {}
