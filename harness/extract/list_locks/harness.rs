// Contracts: C15-K2 lock discipline ("comparing two lists always terminates", concat of a list
// with itself) and C05-U3 (the Option tag/payload layout list_get writes).
mod h {
    use super::boundary::List;
    use super::*;
    use crate::value::{RotoOption, CAP};

    unsafe extern "C" fn eq_u32(a: *const (), b: *const ()) -> bool {
        unsafe { *(a as *const u32) == *(b as *const u32) }
    }

    fn vt() -> VTable {
        VTable { size: 4, align: 4, clone_fn: None, drop_fn: None, eq_fn: eq_u32 }
    }

    fn mk(n: usize, vals: [u32; CAP]) -> ErasedList {
        let l = ErasedList::new(vt());
        {
            let mut g = l.0.lock().unwrap();
            g.len = n;
            g.store = vals;
            g.fix();
        }
        l.0.lock_count.set(0);
        l
    }

    /// element-wise (a slice == would go through memcmp, which needs 17 unwindings)
    fn arr_eq(a: &[u32; CAP], b: &[u32; CAP]) -> bool {
        a[0] == b[0] && a[1] == b[1] && a[2] == b[2] && a[3] == b[3]
    }

    fn model_eq(n1: usize, v1: &[u32; CAP], n2: usize, v2: &[u32; CAP]) -> bool {
        if n1 != n2 {
            return false;
        }
        let mut i = 0;
        while i < CAP {
            if i < n1 && v1[i] != v2[i] {
                return false;
            }
            i += 1;
        }
        true
    }

    static mut DROPS: usize = 0;
    static mut DROPPED: usize = 0;
    unsafe extern "C" fn count_drop(p: *mut ()) {
        unsafe {
            DROPS += 1;
            DROPPED = p as usize;
        }
    }
    fn mk_dropping(n: usize, vals: [u32; CAP]) -> ErasedList {
        let mut v = vt();
        v.drop_fn = Some(count_drop);
        let l = ErasedList::new(v);
        {
            let mut g = l.0.lock().unwrap();
            g.len = n;
            g.store = vals;
            g.fix();
        }
        l.0.lock_count.set(0);
        l
    }
    fn model_index(n: usize, v: &[u32; CAP], x: u32) -> Option<usize> {
        let mut i = 0;
        while i < CAP {
            if i < n && v[i] == x {
                return Some(i);
            }
            i += 1;
        }
        None
    }

    /// contains / index agree with the vector model and leave the probe value alone; the `_owned`
    /// forms (what scripts call: the probe is a temporary the callee must release) give the same
    /// answer and drop the probe exactly once - after the lookup, one lock taken and released.
    #[kani::proof]
    #[kani::unwind(9)]
    fn c15_k2_contains_and_index() {
        let n: usize = kani::any();
        kani::assume(n <= 3);
        let v: [u32; CAP] = kani::any();
        let mut x: u32 = kani::any();
        let a = mk_dropping(n, v);
        let p = NonNull::from(&mut x).cast::<()>();
        let want = model_index(n, &v, x);
        unsafe {
            DROPS = 0;
        }
        let which: u8 = kani::any();
        kani::assume(which < 4);
        let (found, idx, owned) = match which {
            0 => (unsafe { a.contains(p) }, None, false),
            1 => (unsafe { a.contains_owned(p) }, None, true),
            2 => {
                let i = unsafe { a.index(p) };
                (i.is_some(), i, false)
            }
            _ => {
                let i = unsafe { a.index_owned(p) };
                (i.is_some(), i, true)
            }
        };
        assert!(found == want.is_some() && (which < 2 || idx == want), "OBL:C15.contains_index.agree_with_the_vector_model_first_match");
        let drops = unsafe { DROPS };
        assert!(if owned { drops == 1 && unsafe { DROPPED } == p.as_ptr() as usize } else { drops == 0 }, "OBL:C15.contains_index.owned_forms_drop_the_probe_exactly_once_the_others_never");
        assert!(a.0.lock_count.get() == 1 && !a.0.locked.get(), "OBL:C15.contains_index.one_lock_taken_and_released");
        kani::cover!(which == 3 && want == Some(1), "COV:C15.contains_index.index_owned_second_element_reached");
        kani::cover!(which == 1 && want.is_none(), "COV:C15.contains_index.contains_owned_absent_reached");
    }

    /// List<T> == List<T>: terminates (never re-locks a held mutex), locks each distinct operand
    /// exactly once, releases both, and the answer is element-wise equality.
    #[kani::proof]
    #[kani::unwind(9)]
    fn c15_k2_list_eq() {
        let (n1, n2): (usize, usize) = (kani::any(), kani::any());
        kani::assume(n1 <= 2 && n2 <= 2);
        let (v1, v2): ([u32; CAP], [u32; CAP]) = (kani::any(), kani::any());
        let a = mk(n1, v1);
        let b = mk(n2, v2);
        let aliased: bool = kani::any();
        let la: List<u32> = List::from_erased(a.clone());
        let lb: List<u32> = List::from_erased(if aliased { a.clone() } else { b.clone() });
        let r = la == lb;
        if aliased {
            assert!(r, "OBL:C15.list_eq.same_list_is_equal");
        } else {
            assert!(r == model_eq(n1, &v1, n2, &v2), "OBL:C15.list_eq.elementwise_equality");
            assert!(a.0.lock_count.get() == 1 && b.0.lock_count.get() == 1, "OBL:C15.list_eq.locks_each_operand_once");
        }
        assert!(!a.0.locked.get() && !b.0.locked.get(), "OBL:C15.list_eq.releases_all_locks");
        kani::cover!(!aliased && r && n1 == 2, "COV:C15.list_eq.equal_distinct_reached");
        kani::cover!(!aliased && !r && n1 == n2, "COV:C15.list_eq.unequal_same_len_reached");
    }

    /// ErasedList == ErasedList (the script-side ==): same contract.
    #[kani::proof]
    #[kani::unwind(9)]
    fn c15_k2_erased_eq() {
        let (n1, n2): (usize, usize) = (kani::any(), kani::any());
        kani::assume(n1 <= 2 && n2 <= 2);
        let (v1, v2): ([u32; CAP], [u32; CAP]) = (kani::any(), kani::any());
        let a = mk(n1, v1);
        let b = mk(n2, v2);
        let aliased: bool = kani::any();
        let rhs = if aliased { a.clone() } else { b.clone() };
        let r = a == rhs;
        if aliased {
            assert!(r, "OBL:C15.erased_eq.same_list_is_equal");
        } else {
            assert!(r == model_eq(n1, &v1, n2, &v2), "OBL:C15.erased_eq.elementwise_equality");
            assert!(a.0.lock_count.get() == 1 && b.0.lock_count.get() == 1, "OBL:C15.erased_eq.locks_each_operand_once");
        }
        assert!(!a.0.locked.get() && !b.0.locked.get(), "OBL:C15.erased_eq.releases_all_locks");
        kani::cover!(!aliased && r && n1 == 2, "COV:C15.erased_eq.equal_distinct_reached");
    }

    /// concat, including a list with itself: terminates, operands unchanged, result = a ++ b.
    #[kani::proof]
    #[kani::unwind(9)]
    fn c15_k2_concat() {
        let (n1, n2): (usize, usize) = (kani::any(), kani::any());
        kani::assume(n1 <= 2 && n2 <= 2);
        let (v1, v2): ([u32; CAP], [u32; CAP]) = (kani::any(), kani::any());
        let a = mk(n1, v1);
        let b = mk(n2, v2);
        let aliased: bool = kani::any();
        let rhs = if aliased { a.clone() } else { b.clone() };
        let c = unsafe { a.concat(&rhs) };
        let (m2, w2) = if aliased { (n1, v1) } else { (n2, v2) };
        let g = c.0.lock().unwrap();
        assert!(g.len == n1 + m2, "OBL:C15.concat.length_is_sum");
        let i: usize = kani::any();
        kani::assume(i < CAP);
        if i < n1 {
            assert!(g.store[i] == v1[i], "OBL:C15.concat.left_operand_first");
        } else if i < n1 + m2 {
            assert!(g.store[i] == w2[i - n1], "OBL:C15.concat.right_operand_second");
        }
        drop(g);
        let ga = a.0.lock().unwrap();
        assert!(ga.len == n1 && arr_eq(&ga.store, &v1), "OBL:C15.concat.left_operand_unchanged");
        drop(ga);
        let gb = b.0.lock().unwrap();
        assert!(gb.len == n2 && arr_eq(&gb.store, &v2), "OBL:C15.concat.other_list_unchanged");
        drop(gb);
        assert!(!Arc::ptr_eq(&c.0, &a.0) && !Arc::ptr_eq(&c.0, &b.0), "OBL:C15.concat.result_is_a_new_list");
        kani::cover!(aliased && n1 == 2, "COV:C15.concat.self_concat_reached");
    }

    /// ffi::list_get (script-side `get`): never re-locks, writes tag 1 (None) out of range and
    /// tag 0 (Some) + the element at offset 1.next_multiple_of(align) in range (C05-U3).
    #[kani::proof]
    #[kani::unwind(9)]
    fn c15_k2_list_get() {
        let n: usize = kani::any();
        kani::assume(n <= 2);
        let v: [u32; CAP] = kani::any();
        let a = mk(n, v);
        let idx: u64 = kani::any();
        kani::assume(idx <= 2 || idx > u32::MAX as u64);
        let mut out = RotoOption::<()>([0xAAAA_AAAA_AAAA_AAAA; 2], core::marker::PhantomData);
        unsafe { ffi::list_get(&mut out as *mut RotoOption<()>, a.clone(), idx) };
        let bytes: [u8; 16] = unsafe { core::mem::transmute(out.0) };
        if idx < n as u64 {
            assert!(bytes[0] == 0, "OBL:C15.list_get.some_tag_is_zero");
            let payload = u32::from_ne_bytes([bytes[4], bytes[5], bytes[6], bytes[7]]);
            assert!(payload == v[idx as usize], "OBL:C15.list_get.payload_at_aligned_offset");
        } else {
            assert!(bytes[0] == 1, "OBL:C15.list_get.none_tag_is_one_out_of_range");
        }
        assert!(!a.0.locked.get(), "OBL:C15.list_get.releases_all_locks");
        kani::cover!(idx < n as u64 && idx == 1, "COV:C15.list_get.in_range_reached");
        kani::cover!(idx > u32::MAX as u64, "COV:C15.list_get.huge_index_reached");
    }

    static mut ZST_CLONES: u32 = 0;
    unsafe extern "C" fn clone_zst(_dst: *mut (), _src: *const ()) {
        unsafe {
            ZST_CLONES += 1;
        }
    }

    /// script-side get on a list of zero-sized tracked elements: an in-range get hands out one new
    /// element, so the element's clone function runs exactly once ("every element is cloned and
    /// dropped in balance"); out of range clones nothing
    #[kani::proof]
    #[kani::unwind(9)]
    fn c15_k2_list_get_zst_clones() {
        unsafe {
            ZST_CLONES = 0;
        }
        let l = ErasedList::new(VTable { size: 0, align: 1, clone_fn: Some(clone_zst), drop_fn: None, eq_fn: eq_u32 });
        let n: usize = kani::any();
        kani::assume(n <= 2);
        {
            let mut g = l.0.lock().unwrap();
            g.len = n;
            g.fix();
        }
        let idx: u64 = kani::any();
        kani::assume(idx <= 2);
        let mut out = RotoOption::<()>([0xAAAA_AAAA_AAAA_AAAA; 2], core::marker::PhantomData);
        unsafe { ffi::list_get(&mut out as *mut RotoOption<()>, l.clone(), idx) };
        let tag = unsafe { *(&out as *const RotoOption<()> as *const u8) };
        let in_range = idx < n as u64;
        assert!(tag == if in_range { 0 } else { 1 }, "OBL:C15.list_get.zst_tag_some_iff_in_range");
        assert!(unsafe { ZST_CLONES } == in_range as u32, "OBL:C15.list_get.zst_element_cloned_exactly_once_per_successful_get");
        kani::cover!(in_range && idx == 1, "COV:C15.list_get.zst_in_range_reached");
    }

    #[kani::proof]
    #[kani::unwind(9)]
    fn canary_c15_k2_erased_eq() {
        let v: [u32; CAP] = kani::any();
        let a = mk(2, v);
        let b = mk(2, v);
        assert!(!(a == b), "CANARY:C15.erased_eq.elementwise_equality");
    }
}
