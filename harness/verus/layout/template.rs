// Verus unit `layout` - assembled on every run by /verif/check from /repo/src/runtime/layout.rs.
// Text that replaced a fragment marker is verbatim source; requires/ensures/proof text is the contract.
use vstd::prelude::*;
use vstd::arithmetic::power2::*;
use vstd::arithmetic::div_mod::*;

macro_rules! ice { ($($t:tt)*) => { panic!("ice") } }

verus! {

// ---------------------------------------------------------------- specification vocabulary
pub open spec fn is_pow2_int(a: int) -> bool {
    exists|k: nat| a == pow2(k)
}

/// the invariant documented on `Layout`
pub open spec fn wf(l: Layout) -> bool {
    l.align > 0 && is_pow2_int(l.align as int) && (l.size as int) % (l.align as int) == 0
}

pub open spec fn bwf(b: LayoutBuilder) -> bool {
    b.align > 0 && is_pow2_int(b.align as int)
}

/// least multiple of `a` that is >= `x` (a > 0)
pub open spec fn round_up(x: int, a: int) -> int {
    if x % a == 0 { x } else { x + (a - x % a) }
}

pub assume_specification[ usize::next_multiple_of ](x: usize, rhs: usize) -> (r: usize)
    requires
        rhs > 0,
        round_up(x as int, rhs as int) <= usize::MAX,
    ensures
        r as int == round_up(x as int, rhs as int),
;

pub assume_specification[ usize::is_power_of_two ](x: usize) -> (r: bool)
    ensures
        r == is_pow2_int(x as int),
;

proof fn lemma_round_up(x: int, a: int)
    requires
        x >= 0,
        a > 0,
    ensures
        round_up(x, a) >= x,
        round_up(x, a) < x + a,
        round_up(x, a) % a == 0,
        forall|m: int| m >= x && m % a == 0 ==> #[trigger] (m % a) == 0 && m >= round_up(x, a),
{
    lemma_fundamental_div_mod(x, a);
    let r = x % a;
    if r == 0 {
    } else {
        let q = x / a;
        assert(x + (a - r) == a * (q + 1)) by (nonlinear_arith)
            requires x == a * q + r;
        lemma_mod_multiples_basic(q + 1, a);
        assert((a * (q + 1)) % a == 0) by {
            lemma_mod_multiples_basic(q + 1, a);
            assert(a * (q + 1) == (q + 1) * a) by (nonlinear_arith);
        }
    }
    assert forall|m: int| m >= x && m % a == 0 implies #[trigger] (m % a) == 0 && m >= round_up(x, a) by {
        if r != 0 {
            // m is a multiple of a that is >= x = a*q + r with 0 < r < a, so m >= a*(q+1)
            lemma_fundamental_div_mod(m, a);
            let qm = m / a;
            let q = x / a;
            assert(m == a * qm);
            assert(qm > q) by (nonlinear_arith)
                requires a * qm >= a * q + r, r > 0, a > 0;
            assert(a * qm >= a * (q + 1)) by (nonlinear_arith)
                requires qm >= q + 1, a > 0;
            assert(x + (a - r) == a * (q + 1)) by (nonlinear_arith)
                requires x == a * q + r;
        }
    }
}

proof fn lemma_one_is_pow2()
    ensures
        is_pow2_int(1),
{
    lemma2_to64();
    assert(1 == pow2(0));
}

proof fn lemma_pow2_max(a: int, b: int)
    requires
        is_pow2_int(a),
        is_pow2_int(b),
    ensures
        is_pow2_int(if a >= b { a } else { b }),
{
}

/// a multiple of a power of two is a multiple of every smaller power of two
proof fn lemma_pow2_divides(small: int, big: int, x: int)
    requires
        is_pow2_int(small),
        is_pow2_int(big),
        small <= big,
        x % big == 0,
        x >= 0,
    ensures
        x % small == 0,
{
    let ks = choose|k: nat| small == pow2(k);
    let kb = choose|k: nat| big == pow2(k);
    lemma_pow2_pos(ks);
    lemma_pow2_pos(kb);
    if kb < ks {
        lemma_pow2_strictly_increases(kb, ks);
    }
    let d = (kb - ks) as nat;
    lemma_pow2_adds(ks, d);
    // big == small * pow2(d)
    lemma_fundamental_div_mod(x, big);
    let q = x / big;
    assert(x == small * (pow2(d) * q)) by (nonlinear_arith)
        requires x == big * q, big == small * pow2(d);
    lemma_mod_multiples_basic(pow2(d) * q, small);
    assert(small * (pow2(d) * q) == (pow2(d) * q) * small) by (nonlinear_arith);
}

// ---------------------------------------------------------------- the real definitions
/*@STRUCT_LAYOUT@*/

/*@STRUCT_BUILDER@*/

impl Layout {
    /*@NEW_SIG@*/
        requires
            align > 0,
            is_pow2_int(align as int),
            (size as int) % (align as int) == 0,
        ensures
            r.size == size,
            r.align == align,
            wf(r),
    /*@NEW_BODY@*/

    pub fn is_zero_sized(&self) -> (r: bool)
        ensures r == (self.size == 0),
    /*@IS_ZERO_SIZED@*/

    pub fn size(&self) -> (r: usize)
        ensures r == self.size,
    /*@SIZE_BODY@*/

    pub fn align(&self) -> (r: usize)
        ensures r == self.align,
    /*@ALIGN_BODY@*/

    /*@UNION_SIG@*/
        requires
            wf(*self),
            wf(*other),
            (if self.size >= other.size { self.size } else { other.size }) + (if self.align >= other.align { self.align } else { other.align }) <= usize::MAX,
        ensures
            wf(r),
            r.align == (if self.align >= other.align { self.align } else { other.align }),
            r.size >= self.size && r.size >= other.size,
            r.size as int == round_up((if self.size >= other.size { self.size } else { other.size }) as int, r.align as int),
    /*@UNION_BODY@*/

    /*@OFFSET_BY_SIG@*/
        requires
            wf(*self),
            n + self.align + self.size <= usize::MAX,
        ensures
            r as int == round_up(n as int, self.align as int),
            r >= n,
            r < n + self.align,
            (r as int) % (self.align as int) == 0,
    /*@OFFSET_BY_BODY@*/
}

impl LayoutBuilder {
    /*@BNEW_SIG@*/
        ensures
            r.size == 0,
            r.align == 1,
            bwf(r),
    /*@BNEW_BODY@*/

    /*@ADD_SIG@*/
        requires
            wf(*layout),
            bwf(*old(self)),
            old(self).size + layout.align + layout.size <= usize::MAX,
        ensures
            r as int == round_up(old(self).size as int, layout.align as int),
            r >= old(self).size,
            r < old(self).size + layout.align,
            (r as int) % (layout.align as int) == 0,
            final(self).size == r + layout.size,
            final(self).align == (if old(self).align >= layout.align { old(self).align } else { layout.align }),
            bwf(*final(self)),
    /*@ADD_BODY@*/

    /*@FINISH_SIG@*/
        requires
            bwf(self),
            self.size + self.align <= usize::MAX,
        ensures
            wf(r),
            r.align == self.align,
            r.size as int == round_up(self.size as int, self.align as int),
            r.size >= self.size,
            r.size < self.size + self.align,
    /*@FINISH_BODY@*/
}

// ---------------------------------------------------------------- placement lemma (induction)
/// size of the builder after adding `fields[0..n]` (mirror of `add`'s postcondition)
pub open spec fn size_after(fields: Seq<Layout>, n: nat) -> int
    decreases n,
{
    if n == 0 { 0 } else {
        round_up(size_after(fields, (n - 1) as nat), fields[n - 1].align as int) + fields[n - 1].size as int
    }
}

pub open spec fn align_after(fields: Seq<Layout>, n: nat) -> int
    decreases n,
{
    if n == 0 { 1 } else {
        let a = align_after(fields, (n - 1) as nat);
        if a >= fields[n - 1].align as int { a } else { fields[n - 1].align as int }
    }
}

/// offset at which field i is placed
pub open spec fn offset_of(fields: Seq<Layout>, i: nat) -> int {
    round_up(size_after(fields, i), fields[i as int].align as int)
}

proof fn lemma_size_monotone(fields: Seq<Layout>, i: nat, j: nat)
    requires
        i <= j <= fields.len(),
        forall|k: int| 0 <= k < fields.len() ==> wf(#[trigger] fields[k]),
    ensures
        0 <= size_after(fields, i) <= size_after(fields, j),
    decreases j,
{
    if j == 0 {
    } else if i == j {
        if i > 0 {
            lemma_size_monotone(fields, (i - 1) as nat, (i - 1) as nat);
            lemma_round_up(size_after(fields, (i - 1) as nat), fields[i - 1].align as int);
        }
    } else {
        lemma_size_monotone(fields, i, (j - 1) as nat);
        lemma_round_up(size_after(fields, (j - 1) as nat), fields[j - 1].align as int);
    }
}

/// C02: for every sequence of well-formed field layouts, the offsets the builder hands out are
/// aligned, strictly ordered (i < j ==> field i ends before field j starts), inside the
/// finished size, and do not depend on later fields.
proof fn lemma_placement(fields: Seq<Layout>, i: nat, j: nat)
    requires
        i < j < fields.len(),
        forall|k: int| 0 <= k < fields.len() ==> wf(#[trigger] fields[k]),
    ensures
        offset_of(fields, i) % (fields[i as int].align as int) == 0,
        offset_of(fields, i) + fields[i as int].size <= offset_of(fields, j),
        offset_of(fields, j) + fields[j as int].size <= size_after(fields, fields.len()),
        size_after(fields, fields.len()) <= round_up(size_after(fields, fields.len()), align_after(fields, fields.len())),
        // frame: the offset of field i only depends on fields[0..=i]
        forall|extra: Layout| offset_of(fields.push(extra), i) == offset_of(fields, i),
{
    lemma_size_monotone(fields, i, i);
    lemma_round_up(size_after(fields, i), fields[i as int].align as int);
    // size_after(i+1) == offset_i + size_i
    assert(size_after(fields, i + 1) == offset_of(fields, i) + fields[i as int].size);
    lemma_size_monotone(fields, i + 1, j);
    lemma_size_monotone(fields, j, j);
    lemma_round_up(size_after(fields, j), fields[j as int].align as int);
    assert(size_after(fields, j + 1) == offset_of(fields, j) + fields[j as int].size);
    lemma_size_monotone(fields, j + 1, fields.len());
    lemma_size_monotone(fields, fields.len(), fields.len());
    lemma_align_pos(fields, fields.len());
    lemma_round_up(size_after(fields, fields.len()), align_after(fields, fields.len()));
    assert forall|extra: Layout| offset_of(fields.push(extra), i) == offset_of(fields, i) by {
        lemma_prefix_independent(fields, extra, i);
    }
}

proof fn lemma_align_pos(fields: Seq<Layout>, n: nat)
    requires
        n <= fields.len(),
        forall|k: int| 0 <= k < fields.len() ==> wf(#[trigger] fields[k]),
    ensures
        align_after(fields, n) >= 1,
    decreases n,
{
    if n > 0 {
        lemma_align_pos(fields, (n - 1) as nat);
    }
}

proof fn lemma_prefix_independent(fields: Seq<Layout>, extra: Layout, n: nat)
    requires
        n <= fields.len(),
    ensures
        size_after(fields.push(extra), n) == size_after(fields, n),
        n < fields.len() ==> offset_of(fields.push(extra), n) == offset_of(fields, n),
    decreases n,
{
    if n > 0 {
        lemma_prefix_independent(fields, extra, (n - 1) as nat);
        assert(fields.push(extra)[n - 1] == fields[n - 1]);
    }
    if n < fields.len() {
        assert(fields.push(extra)[n as int] == fields[n as int]);
    }
}

} // verus!

fn main() {}
