// Verus unit `scope` - assembled on every run by /verif/check from /repo/src/typechecker/scope.rs.
// Everything between the fragment markers is the text of /repo; the prelude (stand-ins for the
// environment), the spec functions and the contracts are /verif's.
#![allow(unused_imports, dead_code, unused_variables, private_interfaces)]
use vstd::prelude::*;
use std::ops::Deref;

macro_rules! ice { ($($t:tt)*) => { panic!("ice") } }

verus! {

// ---------------------------------------------------------------------------------------------
// environment stand-ins (assumed contracts, listed in unit.toml)
// ---------------------------------------------------------------------------------------------
pub struct Identifier(pub u32);
impl Clone for Identifier { fn clone(&self) -> (r: Self) ensures r == *self { Identifier(self.0) } }
impl Copy for Identifier {}
impl PartialEq for Identifier { #[verifier::external_body] fn eq(&self, o: &Self) -> bool { self.0 == o.0 } }
impl Eq for Identifier {}

pub struct MetaId(pub usize);
impl Clone for MetaId { fn clone(&self) -> (r: Self) ensures r == *self { MetaId(self.0) } }
impl Copy for MetaId {}

pub struct Meta<T> { pub node: T, pub id: MetaId }

impl<T> Deref for Meta<T> {
    type Target = T;
    fn deref(&self) -> (r: &T)
        ensures *r == self.node
    { &self.node }
}

/// what a declaration declares: opaque here (lookup only clones and returns declarations)
pub struct DeclarationKind(pub u8);

#[verifier::external_body]
#[verifier::reject_recursive_types(K)]
#[verifier::reject_recursive_types(V)]
pub struct BTreeMap<K, V> { inner: std::collections::BTreeMap<K, V> }

impl<K, V> View for BTreeMap<K, V> {
    type V = Map<K, V>;
    uninterp spec fn view(&self) -> Map<K, V>;
}

impl<K: Ord, V> BTreeMap<K, V> {
    #[verifier::external_body]
    pub fn new() -> (r: Self)
        ensures r@ == Map::<K, V>::empty()
    { BTreeMap { inner: std::collections::BTreeMap::new() } }

    #[verifier::external_body]
    pub fn get(&self, k: &K) -> (r: Option<&V>)
        ensures
            r.is_some() <==> self@.contains_key(*k),
            r.is_some() ==> *r.unwrap() == self@[*k],
    { self.inner.get(k) }
}

impl Clone for Declaration {
    #[verifier::external_body]
    fn clone(&self) -> (r: Self)
        ensures r == *self
    { unimplemented!() }
}

impl Clone for ScopeRef { fn clone(&self) -> (r: Self) ensures r == *self { ScopeRef(self.0) } }
impl Copy for ScopeRef {}
impl Clone for ResolvedName { fn clone(&self) -> (r: Self) ensures r == *self { ResolvedName { scope: self.scope, ident: self.ident } } }
impl Copy for ResolvedName {}
impl PartialEq for ScopeRef { #[verifier::external_body] fn eq(&self, o: &Self) -> bool { self.0 == o.0 } }
impl Eq for ScopeRef {}
impl PartialOrd for ScopeRef { #[verifier::external_body] fn partial_cmp(&self, o: &Self) -> Option<std::cmp::Ordering> { self.0.partial_cmp(&o.0) } }
impl Ord for ScopeRef { #[verifier::external_body] fn cmp(&self, o: &Self) -> std::cmp::Ordering { self.0.cmp(&o.0) } }
impl PartialEq for ResolvedName { #[verifier::external_body] fn eq(&self, o: &Self) -> bool { self.scope.0 == o.scope.0 && self.ident.0 == o.ident.0 } }
impl Eq for ResolvedName {}
impl PartialOrd for ResolvedName { #[verifier::external_body] fn partial_cmp(&self, o: &Self) -> Option<std::cmp::Ordering> { Some(self.cmp(o)) } }
impl Ord for ResolvedName { #[verifier::external_body] fn cmp(&self, o: &Self) -> std::cmp::Ordering { (self.scope.0, self.ident.0).cmp(&(o.scope.0, o.ident.0)) } }
impl PartialOrd for Identifier { #[verifier::external_body] fn partial_cmp(&self, o: &Self) -> Option<std::cmp::Ordering> { self.0.partial_cmp(&o.0) } }
impl Ord for Identifier { #[verifier::external_body] fn cmp(&self, o: &Self) -> std::cmp::Ordering { self.0.cmp(&o.0) } }

// ---------------------------------------------------------------------------------------------
// real definitions (src/typechecker/scope.rs)
// ---------------------------------------------------------------------------------------------
/*@STRUCT_SCOPEREF@*/

/*@STRUCT_RESOLVEDNAME@*/

/*@STRUCT_DECLARATION@*/

/*@STRUCT_SCOPEGRAPH@*/

/*@STRUCT_SCOPE@*/

/*@ENUM_SCOPETYPE@*/

/*@STRUCT_MODULESCOPE@*/

// ---------------------------------------------------------------------------------------------
// the lookup rule of the property, written from its statement:
//   "declarations of the innermost enclosing scope, then that scope's imports, then outward"
// ---------------------------------------------------------------------------------------------
pub open spec fn rname(s: nat, x: Identifier) -> ResolvedName {
    ResolvedName { scope: ScopeRef(s as usize), ident: x }
}

pub open spec fn lookup(g: &ScopeGraph, s: nat, x: Identifier) -> Option<Declaration>
    decreases s
{
    if g.declarations@.contains_key(rname(s, x)) {
        Some(g.declarations@[rname(s, x)])
    } else if s < g.scopes@.len() && g.scopes@[s as int].imports@.contains_key(x) {
        Some(g.declarations@[g.scopes@[s as int].imports@[x].1])
    } else if s < g.scopes@.len() && g.scopes@[s as int].parent.is_some() && (g.scopes@[s as int].parent.unwrap().0 as nat) < s {
        lookup(g, g.scopes@[s as int].parent.unwrap().0 as nat, x)
    } else {
        None
    }
}

/// the innermost module scope enclosing `s` (s itself included)
pub open spec fn enclosing_module(g: &ScopeGraph, s: nat) -> Option<nat>
    decreases s
{
    if s >= g.scopes@.len() {
        None
    } else if g.scopes@[s as int].scope_type is Module {
        Some(s)
    } else if g.scopes@[s as int].parent.is_some() && (g.scopes@[s as int].parent.unwrap().0 as nat) < s {
        enclosing_module(g, g.scopes@[s as int].parent.unwrap().0 as nat)
    } else {
        None
    }
}

pub open spec fn module_of(t: ScopeType) -> ModuleScope {
    t->Module_0
}

impl ScopeGraph {
    /// representation invariant of the scope tree: scope 0 is the root, every other scope's
    /// parent was created earlier
    pub open spec fn wf(&self) -> bool {
        &&& self.scopes@.len() > 0
        &&& forall|i: int| 0 <= i < self.scopes@.len() ==>
                (#[trigger] self.scopes@[i]).parent.is_some() ==> (self.scopes@[i].parent.unwrap().0 as int) < i
    }

    /// every import names a declared item (callers resolve the path before importing it)
    pub open spec fn imports_resolve(&self) -> bool {
        forall|i: int, x: Identifier| 0 <= i < self.scopes@.len() && (#[trigger] self.scopes@[i].imports@.contains_key(x))
            ==> self.declarations@.contains_key(self.scopes@[i].imports@[x].1)
    }

    /// every module scope's parent module is a module scope whose name is declared
    pub open spec fn modules_wf(&self) -> bool {
        forall|i: int| 0 <= i < self.scopes@.len() && (#[trigger] self.scopes@[i]).scope_type is Module
            && module_of(self.scopes@[i].scope_type).parent_module.is_some() ==> {
                let p = module_of(self.scopes@[i].scope_type).parent_module.unwrap().0 as int;
                &&& p < self.scopes@.len()
                &&& self.scopes@[p].scope_type is Module
                &&& self.declarations@.contains_key(module_of(self.scopes@[p].scope_type).name)
            }
    }

    /*@NEW_HEAD@*/
        ensures
            r.wf(),
            r.scopes@.len() == 1,
            r.scopes@[0].parent.is_none(),
            r.scopes@[0].imports@ == Map::<Identifier, (MetaId, ResolvedName)>::empty(),
            r.declarations@ == Map::<ResolvedName, Declaration>::empty(),
    /*@NEW_BODY@*/

    /*@WRAP_HEAD@*/
        requires
            old(self).wf(),
            (parent.0 as int) < old(self).scopes@.len(),
        ensures
            final(self).wf(),
            r.0 == old(self).scopes@.len(),
            final(self).scopes@.len() == old(self).scopes@.len() + 1,
            final(self).scopes@[r.0 as int].parent == Some(parent),
            final(self).scopes@[r.0 as int].scope_type == scope_type,
            final(self).scopes@[r.0 as int].imports@ == Map::<Identifier, (MetaId, ResolvedName)>::empty(),
            // frame: nothing else changes
            forall|i: int| 0 <= i < old(self).scopes@.len() ==> final(self).scopes@[i] == old(self).scopes@[i],
            final(self).declarations == old(self).declarations,
    /*@WRAP_BODY@*/

    /*@PARENT_HEAD@*/
        requires
            (scope.0 as int) < self.scopes@.len(),
        ensures
            r == self.scopes@[scope.0 as int].parent,
    /*@PARENT_BODY@*/

    /*@RESOLVE_HEAD@*/
        requires
            self.wf(),
            self.imports_resolve(),
            (scope_in.0 as int) < self.scopes@.len(),
        ensures
            recurse ==> r == lookup(self, scope_in.0 as nat, ident.node),
            !recurse ==> r == (if self.declarations@.contains_key(ResolvedName { scope: scope_in, ident: ident.node }) {
                    Some(self.declarations@[ResolvedName { scope: scope_in, ident: ident.node }])
                } else {
                    None::<Declaration>
                }),
    /*@RESOLVE_BODY@*/

    /*@GETDECL_HEAD@*/
        requires
            self.declarations@.contains_key(name),
        ensures
            r == self.declarations@[name],
    /*@GETDECL_BODY@*/

    /*@PARENTMOD_HEAD@*/
        requires
            self.wf(),
            self.modules_wf(),
            (scope_in.0 as int) < self.scopes@.len(),
        ensures
            r == (match enclosing_module(self, scope_in.0 as nat) {
                None => None::<Declaration>,
                Some(m) => match module_of(self.scopes@[m as int].scope_type).parent_module {
                    None => None::<Declaration>,
                    Some(p) => Some(self.declarations@[module_of(self.scopes@[p.0 as int].scope_type).name]),
                },
            }),
    /*@PARENTMOD_BODY@*/
}

// ---------------------------------------------------------------------------------------------
// consequences of the contracts, stated as lemmas (the clauses of the property)
// ---------------------------------------------------------------------------------------------
/// a scope's own declaration wins over its import and over everything outside
proof fn lemma_own_declaration_wins(g: &ScopeGraph, s: nat, x: Identifier)
    requires g.declarations@.contains_key(rname(s, x)),
    ensures lookup(g, s, x) == Some(g.declarations@[rname(s, x)]),
{}

/// an import of the scope wins over everything outside
proof fn lemma_import_before_outer(g: &ScopeGraph, s: nat, x: Identifier)
    requires
        !g.declarations@.contains_key(rname(s, x)),
        s < g.scopes@.len(),
        g.scopes@[s as int].imports@.contains_key(x),
    ensures lookup(g, s, x) == Some(g.declarations@[g.scopes@[s as int].imports@[x].1]),
{}

/// nothing found here: the answer is the parent's answer ("then outward")
proof fn lemma_outward(g: &ScopeGraph, s: nat, x: Identifier)
    requires
        g.wf(),
        s < g.scopes@.len(),
        !g.declarations@.contains_key(rname(s, x)),
        !g.scopes@[s as int].imports@.contains_key(x),
    ensures
        g.scopes@[s as int].parent.is_some() ==> lookup(g, s, x) == lookup(g, g.scopes@[s as int].parent.unwrap().0 as nat, x),
        g.scopes@[s as int].parent.is_none() ==> lookup(g, s, x).is_none(),
{}

/// same-named items in scopes that are not on the chain never interfere: changing the
/// declarations and imports of a scope that is not `s` or an ancestor of `s` changes no answer
pub open spec fn on_chain(g: &ScopeGraph, s: nat, t: nat) -> bool
    decreases s
{
    if s == t {
        true
    } else if s < g.scopes@.len() && g.scopes@[s as int].parent.is_some() && (g.scopes@[s as int].parent.unwrap().0 as nat) < s {
        on_chain(g, g.scopes@[s as int].parent.unwrap().0 as nat, t)
    } else {
        false
    }
}

proof fn lemma_frame(g: &ScopeGraph, h: &ScopeGraph, s: nat, x: Identifier)
    requires
        g.wf(), h.wf(),
        g.scopes@.len() == h.scopes@.len(),
        forall|i: int| 0 <= i < g.scopes@.len() ==> (#[trigger] g.scopes@[i]).parent == h.scopes@[i].parent,
        // the graphs agree on every scope on the chain of s
        forall|t: nat| #[trigger] on_chain(g, s, t) ==> {
            &&& g.declarations@.contains_key(rname(t, x)) == h.declarations@.contains_key(rname(t, x))
            &&& g.declarations@.contains_key(rname(t, x)) ==> g.declarations@[rname(t, x)] == h.declarations@[rname(t, x)]
            &&& t < g.scopes@.len() ==> g.scopes@[t as int].imports@.contains_key(x) == h.scopes@[t as int].imports@.contains_key(x)
            &&& (t < g.scopes@.len() && g.scopes@[t as int].imports@.contains_key(x)) ==>
                    g.declarations@[g.scopes@[t as int].imports@[x].1] == h.declarations@[h.scopes@[t as int].imports@[x].1]
        },
    ensures lookup(g, s, x) == lookup(h, s, x),
    decreases s,
{
    assert(on_chain(g, s, s));
    if g.declarations@.contains_key(rname(s, x)) {
    } else if s < g.scopes@.len() && g.scopes@[s as int].imports@.contains_key(x) {
    } else if s < g.scopes@.len() && g.scopes@[s as int].parent.is_some() && (g.scopes@[s as int].parent.unwrap().0 as nat) < s {
        let p = g.scopes@[s as int].parent.unwrap().0 as nat;
        assert forall|t: nat| #[trigger] on_chain(g, p, t) implies on_chain(g, s, t) by {}
        lemma_frame(g, h, p, x);
    } else {
    }
}

} // verus!

fn main() {}
