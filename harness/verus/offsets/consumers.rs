
// ================================================================ consumers of the builder
// (appended to the `layout` unit's template inside the same verus! block)
global size_of usize == 8;

proof fn lemma_size_monotone_prefix(fields: Seq<Layout>, i: nat)
    requires
        i < fields.len(),
        forall|k: int| 0 <= k <= i ==> wf(#[trigger] fields[k]),
    ensures
        0 <= size_after(fields, i),
        size_after(fields, i) + fields[i as int].size <= size_after(fields, i + 1),
        size_after(fields, i + 1) < size_after(fields, i) + fields[i as int].align + fields[i as int].size,
    decreases i,
{
    if i > 0 {
        lemma_size_monotone_prefix(fields, (i - 1) as nat);
    }
    lemma_round_up(size_after(fields, i), fields[i as int].align as int);
}

// ---------------------------------------------------------------- environment stand-ins
#[derive(PartialEq, Eq, Structural)]
pub struct Identifier(pub u32);
impl Clone for Identifier { fn clone(&self) -> (r: Self) ensures r == *self { Identifier(self.0) } }
impl Copy for Identifier {}

pub struct Primitive(pub u8);
pub struct TypeId(pub u64);

#[derive(PartialEq, Eq, Structural)]
/*@STRUCT_TYREF@*/
impl Clone for TyRef { fn clone(&self) -> (r: Self) ensures r == *self { TyRef(self.0) } }
impl Copy for TyRef {}

/*@ENUM_TY@*/

pub struct Rt { pub x: u8 }
pub struct Var(pub u32);
impl Clone for Var { fn clone(&self) -> (r: Self) ensures r == *self { Var(self.0) } }
pub struct Operand(pub Var);
impl vstd::std_specs::convert::FromSpecImpl<Var> for Operand {
    open spec fn obeys_from_spec() -> bool { true }
    open spec fn from_spec(v: Var) -> Operand { Operand(v) }
}
impl From<Var> for Operand { fn from(v: Var) -> (r: Operand) { Operand(v) } }
pub enum Location { Pointer { base: Var, offset: usize }, Var(Var) }

/// ghost record of what the stand-in emitters were asked to emit
pub enum Emitted {
    Offset { base: Var, offset: u32, result: Var },
    DropOf { var: Operand, ty: TyRef },
    CloneOf { to: Location, from: Location, ty: TyRef },
    Return,
}

pub struct Pool { pub x: u8 }
pub struct TypeInfo { pub ty_pool: Pool }
pub struct Ctx { pub type_info: TypeInfo }

pub uninterp spec fn ctx_layout_of(ctx: Ctx, ty: TyRef) -> Option<Layout>;
pub uninterp spec fn ctx_needs_drop(ctx: Ctx, ty: TyRef) -> bool;
pub uninterp spec fn ctx_offset_var(ctx: Ctx, base: Var, offset: u32) -> Var;

pub open spec fn layouts_of(ctx: Ctx, fields: Seq<(Identifier, TyRef)>) -> Seq<Layout> {
    Seq::new(fields.len(), |i: int| ctx_layout_of(ctx, fields[i].1).unwrap())
}

/// what callers guarantee about a record type whose fields are addressed: every field type is
/// inhabited with a well-formed layout, and the record fits in 32 bits (stack-slot limit)
pub open spec fn fields_ok_of(ctx: Ctx, fields: Seq<(Identifier, TyRef)>) -> bool {
    &&& forall|i: int| 0 <= i < fields.len() ==> (#[trigger] ctx_layout_of(ctx, fields[i].1)).is_some() && wf(ctx_layout_of(ctx, fields[i].1).unwrap())
    &&& forall|i: int| 0 <= i < fields.len() ==> (#[trigger] ctx_layout_of(ctx, fields[i].1)).unwrap().align <= u32::MAX
    &&& size_after(layouts_of(ctx, fields), fields.len()) <= u32::MAX
}

pub struct Lowerer { pub ctx: Ctx, pub log: Ghost<Seq<Emitted>> }

impl Pool {
    pub uninterp spec fn spec_get(&self, ty: TyRef) -> Ty;
    #[verifier::external_body]
    pub fn get(&self, ty: TyRef) -> (r: &Ty) ensures *r == self.spec_get(ty) { unimplemented!() }

    pub uninterp spec fn spec_layout_of(&self, ty: TyRef, rt: &Rt) -> Option<Layout>;
    /// callee contract of the recursive call
    #[verifier::external_body]
    pub fn layout_of(&self, ty: TyRef, rt: &Rt) -> (r: Option<Layout>) ensures r == self.spec_layout_of(ty, rt) { unimplemented!() }

    pub open spec fn all_some(&self, fields: Seq<(Identifier, TyRef)>, rt: &Rt, n: int) -> bool {
        forall|i: int| 0 <= i < n ==> (#[trigger] self.spec_layout_of(fields[i].1, rt)).is_some()
    }
    pub open spec fn playouts(&self, fields: Seq<(Identifier, TyRef)>, rt: &Rt) -> Seq<Layout> {
        Seq::new(fields.len(), |i: int| self.spec_layout_of(fields[i].1, rt).unwrap())
    }
    /// inhabited fields have well-formed layouts, and every inhabited prefix of the record fits in
    /// 32 bits (the code generator's stack-slot limit)
    pub open spec fn pfields_ok(&self, fields: Seq<(Identifier, TyRef)>, rt: &Rt) -> bool {
        &&& forall|i: int| 0 <= i < fields.len() ==> (#[trigger] self.spec_layout_of(fields[i].1, rt)).is_some() ==> wf(self.spec_layout_of(fields[i].1, rt).unwrap()) && self.spec_layout_of(fields[i].1, rt).unwrap().align <= u32::MAX
        &&& forall|n: int| 0 <= n <= fields.len() && #[trigger] self.all_some(fields, rt, n) ==> size_after(self.playouts(fields, rt), n as nat) <= u32::MAX
    }

    /// the Record arm of Pool::layout_of, in the shape of the enclosing function
    fn layout_of_record_arm(&self, fields: &Vec<(Identifier, TyRef)>, rt: &Rt) -> (r: Option<Layout>)
        requires
            self.pfields_ok(fields@, rt),
        ensures
            r.is_some() <==> self.all_some(fields@, rt, fields@.len() as int),
            r.is_some() ==> wf(r.unwrap())
                && r.unwrap().align as int == align_after(self.playouts(fields@, rt), fields@.len())
                && r.unwrap().size as int == round_up(size_after(self.playouts(fields@, rt), fields@.len()), align_after(self.playouts(fields@, rt), fields@.len())),
    {
        let layout = /*@ARM_RECORD_BODY@*/;
        Some(layout)
    }
}

impl Lowerer {
    pub open spec fn spec_layout_of(&self, ty: TyRef) -> Option<Layout> { ctx_layout_of(self.ctx, ty) }
    pub open spec fn spec_needs_drop(&self, ty: TyRef) -> bool { ctx_needs_drop(self.ctx, ty) }
    pub open spec fn spec_offset_var(&self, base: Var, offset: u32) -> Var { ctx_offset_var(self.ctx, base, offset) }
    pub open spec fn layouts(&self, fields: Seq<(Identifier, TyRef)>) -> Seq<Layout> { layouts_of(self.ctx, fields) }
    pub open spec fn fields_ok(&self, fields: Seq<(Identifier, TyRef)>) -> bool { fields_ok_of(self.ctx, fields) }

    #[verifier::external_body]
    pub fn layout_of(&self, ty: TyRef) -> (r: Option<Layout>) ensures r == self.spec_layout_of(ty) { unimplemented!() }
    #[verifier::external_body]
    pub fn needs_drop(&self, ty: TyRef) -> (r: bool) ensures r == self.spec_needs_drop(ty) { unimplemented!() }
    #[verifier::external_body]
    pub fn offset(&mut self, var: Var, offset: u32) -> (r: Var)
        ensures final(self).ctx == old(self).ctx, r == old(self).spec_offset_var(var, offset), final(self).log@ == old(self).log@.push(Emitted::Offset { base: var, offset, result: r }),
    { unimplemented!() }
    #[verifier::external_body]
    pub fn call_drop_of(&mut self, var: Operand, ty: TyRef)
        ensures final(self).ctx == old(self).ctx, final(self).log@ == old(self).log@.push(Emitted::DropOf { var, ty }),
    { unimplemented!() }
    #[verifier::external_body]
    pub fn call_clone_of(&mut self, to: Location, from: Location, ty: TyRef)
        ensures final(self).ctx == old(self).ctx, final(self).log@ == old(self).log@.push(Emitted::CloneOf { to, from, ty }),
    { unimplemented!() }
    #[verifier::external_body]
    pub fn emit_return(&mut self, v: Option<Operand>)
        ensures final(self).ctx == old(self).ctx, final(self).log@ == old(self).log@.push(Emitted::Return),
    { unimplemented!() }

    /// the events the statement asks for when a record is cloned: every field exactly once, in
    /// declaration order, from and to the C-layout offset of that field (the one get_field uses)
    pub open spec fn expected_clones(&self, fields: Seq<(Identifier, TyRef)>, return_var: Var, root_var: Var, n: nat) -> Seq<Emitted>
        decreases n
    {
        if n == 0 { Seq::empty() } else {
            let off = offset_of(self.layouts(fields), (n - 1) as nat);
            self.expected_clones(fields, return_var, root_var, (n - 1) as nat).push(Emitted::CloneOf {
                to: Location::Pointer { base: return_var, offset: off as usize },
                from: Location::Pointer { base: root_var, offset: off as usize },
                ty: fields[n - 1].1 })
        }
    }

    /// ... and when it is dropped: every field that needs dropping exactly once, in declaration order,
    /// at its C-layout offset
    pub open spec fn expected_drops(&self, fields: Seq<(Identifier, TyRef)>, root_var: Var, n: nat) -> Seq<Emitted>
        decreases n
    {
        if n == 0 { Seq::empty() } else {
            let rest = self.expected_drops(fields, root_var, (n - 1) as nat);
            if self.spec_needs_drop(fields[n - 1].1) {
                let off = offset_of(self.layouts(fields), (n - 1) as nat) as u32;
                rest.push(Emitted::Offset { base: root_var, offset: off, result: self.spec_offset_var(root_var, off) })
                    .push(Emitted::DropOf { var: Operand(self.spec_offset_var(root_var, off)), ty: fields[n - 1].1 })
            } else { rest }
        }
    }

    /*@GET_FIELD_HEAD@*/
        requires
            old(self).ctx.type_info.ty_pool.spec_get(ty) is Record,
            old(self).fields_ok(old(self).ctx.type_info.ty_pool.spec_get(ty)->Record_0@),
            exists|i: int| 0 <= i < old(self).ctx.type_info.ty_pool.spec_get(ty)->Record_0@.len() && (#[trigger] old(self).ctx.type_info.ty_pool.spec_get(ty)->Record_0@[i]).0 == ident,
        ensures
            *final(self) == *old(self),
            ({
                let fields = old(self).ctx.type_info.ty_pool.spec_get(ty)->Record_0@;
                exists|i: int| 0 <= i < fields.len() && (#[trigger] fields[i]).0 == ident
                    && (forall|j: int| 0 <= j < i ==> (#[trigger] fields[j]).0 != ident)
                    && r.1 == fields[i].1
                    && r.0 as int == offset_of(old(self).layouts(fields), i as nat)
            }),
    /*@GET_FIELD_BODY@*/

    /*@CLONE_RECORD_HEAD@*/
        requires
            old(self).fields_ok(fields@),
        ensures
            final(self).ctx == old(self).ctx,
            final(self).log@ == (old(self).log@ + old(self).expected_clones(fields@, return_var, root_var, fields@.len())).push(Emitted::Return),
    /*@CLONE_RECORD_BODY@*/

    /*@DROP_RECORD_HEAD@*/
        requires
            old(self).fields_ok(fields@),
        ensures
            final(self).ctx == old(self).ctx,
            final(self).log@ == (old(self).log@ + old(self).expected_drops(fields@, root_var, fields@.len())).push(Emitted::Return),
    /*@DROP_RECORD_BODY@*/
}

/// the offsets get_field hands out lie inside the layout the Record arm computes, do not overlap,
/// and are aligned (instance of the placement lemma of the `layout` unit)
proof fn lemma_fields_inside_record(fields: Seq<Layout>, i: nat, j: nat)
    requires
        i < j < fields.len(),
        forall|k: int| 0 <= k < fields.len() ==> wf(#[trigger] fields[k]),
    ensures
        offset_of(fields, i) % (fields[i as int].align as int) == 0,
        offset_of(fields, i) + fields[i as int].size <= offset_of(fields, j),
        offset_of(fields, j) + fields[j as int].size <= round_up(size_after(fields, fields.len()), align_after(fields, fields.len())),
{
    lemma_placement(fields, i, j);
}

} // verus!

fn main() {}
