// Verus unit `span` - assembled on every run by /verif/check from /repo/src/parser/meta.rs.
use vstd::prelude::*;

verus! {


/*@STRUCT_SPAN@*/

/// "lies inside the cited file on character boundaries": `boundary` is the (abstract) set of
/// character boundaries of the file, `len` its length
pub open spec fn valid(s: Span, boundary: Set<int>, len: int) -> bool {
    s.start <= s.end && s.end <= len && boundary.contains(s.start as int) && boundary.contains(s.end as int)
}

impl Span {
    /*@MERGE_HEAD@*/
        requires
            self.file == other.file,
        ensures
            r.file == self.file,
            r.start == self.start || r.start == other.start,
            r.end == self.end || r.end == other.end,
            r.start <= self.start && r.start <= other.start,
            r.end >= self.end && r.end >= other.end,
            forall|boundary: Set<int>, len: int| valid(self, boundary, len) && valid(other, boundary, len) ==> valid(r, boundary, len),
    /*@MERGE_BODY@*/
}

} // verus!

fn main() {}
