//! Root of the in-crate Kani harnesses (attached by the cfg(kani) hook in src/lib.rs).
//! Harnesses that only need crate-visible items live below this module;
//! harnesses for private items are attached by per-file hooks.
#![allow(unused_imports, dead_code)]

// ---------------------------------------------------------------------------------------------
// C20-U2: tagged run-time values of the IR evaluator (src/lir/value.rs)
// C20-U3: evaluator memory (src/lir/eval.rs): read-after-write, loud on out-of-bounds / misaligned
// ---------------------------------------------------------------------------------------------
mod c20 {
    use crate::lir::eval::Memory;
    use crate::lir::value::{IrType, IrValue};

    fn same(x: &IrValue, y: &IrValue) -> bool {
        use IrValue::*;
        match (x, y) {
            (Bool(l), Bool(r)) => l == r,
            (U8(l), U8(r)) => l == r,
            (U16(l), U16(r)) => l == r,
            (U32(l), U32(r)) => l == r,
            (U64(l), U64(r)) => l == r,
            (I8(l), I8(r)) => l == r,
            (I16(l), I16(r)) => l == r,
            (I32(l), I32(r)) => l == r,
            (I64(l), I64(r)) => l == r,
            (F32(l), F32(r)) => l.to_bits() == r.to_bits(),
            (F64(l), F64(r)) => l.to_bits() == r.to_bits(),
            (Char(l), Char(r)) => l == r,
            (Asn(l), Asn(r)) => l.into_u32() == r.into_u32(),
            (Pointer(l), Pointer(r)) => l == r,
            _ => false,
        }
    }

    fn any_value() -> (IrValue, IrType) {
        let k: u8 = kani::any();
        kani::assume(k < 14);
        match k {
            0 => (IrValue::Bool(kani::any()), IrType::Bool),
            1 => (IrValue::U8(kani::any()), IrType::U8),
            2 => (IrValue::U16(kani::any()), IrType::U16),
            3 => (IrValue::U32(kani::any()), IrType::U32),
            4 => (IrValue::U64(kani::any()), IrType::U64),
            5 => (IrValue::I8(kani::any()), IrType::I8),
            6 => (IrValue::I16(kani::any()), IrType::I16),
            7 => (IrValue::I32(kani::any()), IrType::I32),
            8 => (IrValue::I64(kani::any()), IrType::I64),
            9 => (IrValue::F32(f32::from_bits(kani::any())), IrType::F32),
            10 => (IrValue::F64(f64::from_bits(kani::any())), IrType::F64),
            11 => (IrValue::Char(kani::any()), IrType::Char),
            12 => (IrValue::Asn(inetnum::asn::Asn::from_u32(kani::any())), IrType::Asn),
            _ => (IrValue::Pointer(kani::any()), IrType::Pointer),
        }
    }

    /// writing a value to memory and reading it back at its type gives the same value, for
    /// every variant and payload; the byte image has exactly the size of the type
    #[kani::proof]
    #[kani::unwind(10)]
    fn c20_u2_as_vec_from_slice_roundtrip() {
        let (v, ty) = any_value();
        let bytes = v.as_vec();
        assert!(bytes.len() == ty.bytes(), "OBL:C20.value.byte_image_has_the_size_of_the_type");
        let back = IrValue::from_slice(&ty, &bytes);
        assert!(same(&back, &v), "OBL:C20.value.from_slice_inverts_as_vec");
        kani::cover!(matches!(v, IrValue::Char(_)), "COV:C20.value.char_reached");
    }

    /// widening accessors: zero extension for unsigned, sign extension for signed, exact for floats
    #[kani::proof]
    fn c20_u2_widening_accessors() {
        let a: u16 = kani::any();
        let b: i16 = kani::any();
        let c: u32 = kani::any();
        assert!(IrValue::U16(a).as_u64() == a as u64 && IrValue::U8(a as u8).as_u64() == (a as u8) as u64, "OBL:C20.value.as_u64_zero_extends");
        assert!(IrValue::I16(b).as_i64() == b as i64 && IrValue::I8(b as i8).as_i64() == (b as i8) as i64, "OBL:C20.value.as_i64_sign_extends");
        assert!(IrValue::U32(c).as_u64() == c as u64 && IrValue::I32(c as i32).as_i64() == (c as i32) as i64, "OBL:C20.value.32_bit_accessors");
        assert!(IrValue::U64(c as u64 | 1 << 63).as_u64() == (c as u64 | 1 << 63), "OBL:C20.value.u64_keeps_the_top_bit_unsigned");
        let f: u32 = kani::any();
        let x = f32::from_bits(f);
        kani::assume(!x.is_nan());
        assert!(IrValue::F32(x).as_f64() == x as f64, "OBL:C20.value.as_f64_is_exact_for_f32");
        let t: bool = kani::any();
        assert!(IrValue::Bool(t).as_bool() == t && IrValue::Bool(t).switch_on() == t as u32, "OBL:C20.value.bool_accessors");
        kani::cover!(b < 0, "COV:C20.value.negative_reached");
    }

    /// loud: the unsigned accessor on a signed value (and vice versa) never completes
    #[kani::proof]
    fn loud_c20_u2_accessor_variant_mismatch() {
        let x: i32 = kani::any();
        let which: bool = kani::any();
        if which {
            let _ = IrValue::I32(x).as_u64();
        } else {
            let _ = IrValue::U32(x as u32).as_i64();
        }
        assert!(false, "OBL:C20.value.accessor_on_other_signedness_must_not_complete");
    }

    /// evaluator memory: a value written to a fresh allocation is read back; other bytes stay zero
    #[kani::proof]
    #[kani::unwind(18)]
    fn c20_u3_memory_read_after_write() {
        let mut mem = Memory::new();
        let p = mem.allocate(8);
        let q = mem.allocate(4);
        let x: u32 = kani::any();
        let y: u32 = kani::any();
        mem.write(p, &x.to_ne_bytes());
        mem.write(q, &y.to_ne_bytes());
        assert!(mem.read_array::<4>(p) == x.to_ne_bytes(), "OBL:C20.memory.read_after_write");
        assert!(mem.read_array::<4>(q) == y.to_ne_bytes(), "OBL:C20.memory.allocations_do_not_alias");
        kani::cover!(x != y, "COV:C20.memory.distinct_values_reached");
    }

    /// loud: out-of-bounds and misaligned accesses never complete
    #[kani::proof]
    #[kani::unwind(18)]
    fn loud_c20_u3_memory_out_of_bounds() {
        let mut mem = Memory::new();
        let p = mem.allocate(4);
        let oob: bool = kani::any();
        if oob {
            let _ = mem.read_array::<8>(p);
        } else {
            mem.write(p, &[1u8, 2, 3, 4, 5, 6, 7, 8]);
        }
        assert!(false, "OBL:C20.memory.out_of_bounds_access_must_not_complete");
    }

    #[kani::proof]
    #[kani::unwind(10)]
    fn canary_c20_u2_roundtrip() {
        let (v, ty) = any_value();
        let back = IrValue::from_slice(&ty, &v.as_vec());
        assert!(!same(&back, &v), "CANARY:C20.value.from_slice_inverts_as_vec");
    }
}
