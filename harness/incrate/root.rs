//! Root of the in-crate Kani harnesses (attached by the cfg(kani) hook in src/lib.rs).
//! Harnesses that only need crate-visible items live below this module;
//! harnesses for private items are attached by per-file hooks.
#![allow(unused_imports, dead_code)]
