//! C09-U1: BinOp::{precedence, associativity, relative_associativity}
//! Contract taken from the documented grammar (docs + property C09):
//!   level(|| &&) < level(== != < <= > >=) < level(+ -) < level(* / %)
//!   same level -> Left, except comparisons -> Not; && with || -> Not.
use super::*;
use crate::ast::BinOp;

fn any_binop() -> BinOp {
    let k: u8 = kani::any();
    kani::assume(k < 13);
    match k {
        0 => BinOp::And,
        1 => BinOp::Or,
        2 => BinOp::Eq,
        3 => BinOp::Ne,
        4 => BinOp::Lt,
        5 => BinOp::Le,
        6 => BinOp::Gt,
        7 => BinOp::Ge,
        8 => BinOp::Add,
        9 => BinOp::Sub,
        10 => BinOp::Mul,
        11 => BinOp::Div,
        _ => BinOp::Mod,
    }
}

/// Specification: documented level of an operator (higher binds tighter).
fn spec_level(op: BinOp) -> u8 {
    match op {
        BinOp::Or | BinOp::And => 0,
        BinOp::Eq | BinOp::Ne | BinOp::Lt | BinOp::Le | BinOp::Gt | BinOp::Ge => 1,
        BinOp::Add | BinOp::Sub => 2,
        BinOp::Mul | BinOp::Div | BinOp::Mod => 3,
    }
}

/// Specification of the grouping decision for `x a y b z`.
fn spec_rel(a: BinOp, b: BinOp) -> Associativity {
    let (la, lb) = (spec_level(a), spec_level(b));
    if la > lb {
        Associativity::Left
    } else if la < lb {
        Associativity::Right
    } else if la == 1 {
        Associativity::Not
    } else if la == 0 && a != b {
        Associativity::Not
    } else {
        Associativity::Left
    }
}

#[kani::proof]
fn c09_u1_precedence_table() {
    let a = any_binop();
    let lvl = match a.precedence() {
        Precedence::Logical => 0,
        Precedence::Comparison => 1,
        Precedence::AddSub => 2,
        Precedence::MulDiv => 3,
    };
    assert!(lvl == spec_level(a), "OBL:C09.prec.level_table");
    let assoc = a.associativity();
    assert!(
        (assoc == Associativity::Not) == (spec_level(a) == 1),
        "OBL:C09.prec.assoc_not_iff_comparison"
    );
    assert!(
        assoc != Associativity::Right,
        "OBL:C09.prec.no_right_assoc_operator"
    );
    kani::cover!(spec_level(a) == 3, "COV:C09.prec.muldiv_reached");
}

#[kani::proof]
fn c09_u1_relative_associativity() {
    let a = any_binop();
    let b = any_binop();
    let r = a.relative_associativity(&b);
    assert!(r == spec_rel(a, b), "OBL:C09.prec.relative_table");
    kani::cover!(r == Associativity::Not, "COV:C09.prec.rel_not_reached");
    kani::cover!(r == Associativity::Right, "COV:C09.prec.rel_right_reached");
}

/// Canary: the negated postcondition must FAIL (vacuity guard).
#[kani::proof]
fn canary_c09_u1_relative_associativity() {
    let a = any_binop();
    let b = any_binop();
    let r = a.relative_associativity(&b);
    assert!(r != spec_rel(a, b), "CANARY:C09.prec.relative_table");
}
