//! C15-V1 / C15-K1: src/value/list.rs — capacity arithmetic and RawList histories.
//! Child module of value::list (RawList, compute_capacity, offset_of are private).
use super::*;
use crate::value::VTable;

// ---------------------------------------------------------------- compute_capacity (complete)
fn min_cap(size: usize) -> usize {
    if size == 1 {
        8
    } else if size <= 1024 {
        4
    } else {
        1
    }
}

/// C15-V1: for every element size and every required length below the documented overflow
/// threshold: 0 for 0; otherwise a power of two or the small-vector minimum, >= required,
/// never more than twice what is needed beyond the minimum (amortised growth).
#[kani::proof]
fn c15_v1_compute_capacity() {
    let size: usize = kani::any();
    let required: usize = kani::any();
    kani::assume(required <= 1usize << 63);
    let c = compute_capacity(size, required);
    assert!((required == 0) == (c == 0), "OBL:C15.capacity.zero_iff_nothing_required");
    assert!(c >= required, "OBL:C15.capacity.at_least_required");
    assert!(required == 0 || c >= min_cap(size), "OBL:C15.capacity.at_least_minimum");
    assert!(required == 0 || c.is_power_of_two(), "OBL:C15.capacity.power_of_two");
    assert!(required == 0 || c == min_cap(size) || c / 2 < required, "OBL:C15.capacity.less_than_twice_required");
    kani::cover!(required > 8 && c > required, "COV:C15.capacity.rounding_up_reached");
}

/// C15-V1: monotone — asking for more never yields less.
#[kani::proof]
fn c15_v1_compute_capacity_monotone() {
    let size: usize = kani::any();
    let (r1, r2): (usize, usize) = (kani::any(), kani::any());
    kani::assume(r1 <= r2 && r2 <= 1usize << 63);
    assert!(compute_capacity(size, r1) <= compute_capacity(size, r2), "OBL:C15.capacity.monotone");
    kani::cover!(r1 > 0 && r1 < r2, "COV:C15.capacity.monotone_nontrivial");
}

#[kani::proof]
fn canary_c15_v1_compute_capacity() {
    let size: usize = kani::any();
    let required: usize = kani::any();
    kani::assume(required <= 1usize << 63 && required > 0);
    assert!(compute_capacity(size, required) > required, "CANARY:C15.capacity.strictly_more");
}

// ---------------------------------------------------------------- RawList histories (bounded)
static mut CLONES: u32 = 0;
static mut DROPS: u32 = 0;

unsafe extern "C" fn eq_bytes8(a: *const (), b: *const ()) -> bool {
    unsafe { *(a as *const u64) == *(b as *const u64) }
}
unsafe extern "C" fn eq_bytes1(a: *const (), b: *const ()) -> bool {
    unsafe { *(a as *const u8) == *(b as *const u8) }
}
unsafe extern "C" fn eq_zst(_a: *const (), _b: *const ()) -> bool {
    true
}
unsafe extern "C" fn clone8(dst: *mut (), src: *const ()) {
    unsafe {
        *(dst as *mut u64) = *(src as *const u64);
        CLONES += 1;
    }
}
unsafe extern "C" fn drop_count(_p: *mut ()) {
    unsafe {
        DROPS += 1;
    }
}
unsafe extern "C" fn clone_zst(_dst: *mut (), _src: *const ()) {
    unsafe {
        CLONES += 1;
    }
}

/// representation invariant of RawList
fn rep_ok(l: &RawList) -> bool {
    l.len <= l.capacity
        && if l.vtable.size() == 0 { l.capacity == usize::MAX } else { l.capacity == 0 || l.capacity.is_power_of_two() }
}

fn read8(l: &RawList, i: usize) -> Option<u64> {
    l.get(i).map(|p| unsafe { *(p.as_ptr() as *const u64) })
}

/// C15-K1 (8-byte elements, tracked clone/drop): a history of pushes, then get / swap /
/// out-of-range accesses, extend from another list, and drop: results equal the vector model,
/// the representation invariant holds after every operation, every unsafe block is memory
/// safe on these histories (Kani pointer checks), and clones - drops = live elements.
#[kani::proof]
#[kani::unwind(5)]
fn c15_k1_rawlist_u64_history() {
    unsafe {
        CLONES = 0;
        DROPS = 0;
    }
    let vt = VTable::new(8, 8, Some(clone8), Some(drop_count), eq_bytes8);
    let mut l = RawList::new(vt.clone());
    assert!(rep_ok(&l) && l.len() == 0 && l.get(0).is_none(), "OBL:C15.rawlist.new_is_empty");
    let n: usize = kani::any();
    kani::assume(n <= 3);
    let vals: [u64; 3] = kani::any();
    let mut i = 0;
    while i < n {
        let mut v = vals[i];
        unsafe { l.push(NonNull::from_mut(&mut v).cast::<()>()) };
        i += 1;
        assert!(rep_ok(&l) && l.len() == i, "OBL:C15.rawlist.push_keeps_invariant_and_len");
    }
    // contents equal the model, out of range is None
    let k: usize = kani::any();
    kani::assume(k <= 4);
    if k < n {
        assert!(read8(&l, k) == Some(vals[k]), "OBL:C15.rawlist.get_returns_pushed_value");
    } else {
        assert!(l.get(k).is_none(), "OBL:C15.rawlist.get_out_of_range_is_none");
    }
    // swap: in range swaps exactly the two, out of range does nothing
    let (a, b): (usize, usize) = (kani::any(), kani::any());
    kani::assume(a <= 3 && b <= 3);
    l.swap(a, b);
    let mut model = vals;
    if a < n && b < n {
        model.swap(a, b);
    }
    let j: usize = kani::any();
    kani::assume(j < 3);
    if j < n {
        assert!(read8(&l, j) == Some(model[j]), "OBL:C15.rawlist.swap_matches_vector_model");
    }
    assert!(rep_ok(&l) && l.len() == n, "OBL:C15.rawlist.swap_keeps_len_and_invariant");
    // extend a fresh list from it (what concat does): operand unchanged, copy equal, clones counted
    let mut c = RawList::new(vt);
    unsafe { c.extend(&l) };
    assert!(c.len() == n && l.len() == n && rep_ok(&c), "OBL:C15.rawlist.extend_len_and_operand_unchanged");
    if j < n {
        assert!(read8(&c, j) == Some(model[j]) && read8(&l, j) == Some(model[j]), "OBL:C15.rawlist.extend_copies_elements_in_order");
    }
    assert!(unsafe { CLONES } as usize == n && unsafe { DROPS } == 0, "OBL:C15.rawlist.extend_clones_each_element_once");
    drop(c);
    assert!(unsafe { DROPS } as usize == n, "OBL:C15.rawlist.drop_drops_each_element_once");
    drop(l);
    assert!(unsafe { DROPS } as usize == 2 * n, "OBL:C15.rawlist.clones_and_drops_balance");
    kani::cover!(n == 3 && a != b && a < n && b < n, "COV:C15.rawlist.real_swap_reached");
}

/// C15-K1 (zero-sized tracked elements): no allocation, capacity MAX, clone/drop still balanced.
#[kani::proof]
#[kani::unwind(5)]
fn c15_k1_rawlist_zst_history() {
    unsafe {
        CLONES = 0;
        DROPS = 0;
    }
    let vt = VTable::new(0, 1, Some(clone_zst), Some(drop_count), eq_zst);
    let mut l = RawList::new(vt.clone());
    let n: usize = kani::any();
    kani::assume(n <= 3);
    let mut i = 0;
    while i < n {
        let mut v = ();
        unsafe { l.push(NonNull::from_mut(&mut v).cast::<()>()) };
        i += 1;
    }
    assert!(rep_ok(&l) && l.len() == n && l.capacity() == usize::MAX, "OBL:C15.rawlist.zst_len_and_capacity");
    let k: usize = kani::any();
    assert!(l.get(k).is_some() == (k < n), "OBL:C15.rawlist.zst_get_in_range_iff");
    l.swap(0, 1);
    let mut c = RawList::new(vt);
    unsafe { c.extend(&l) };
    assert!(c.len() == n && unsafe { CLONES } as usize == n, "OBL:C15.rawlist.zst_extend_clones_each");
    drop(c);
    drop(l);
    assert!(unsafe { DROPS } as usize == 2 * n, "OBL:C15.rawlist.zst_clones_and_drops_balance");
    kani::cover!(n == 3, "COV:C15.rawlist.zst_three_reached");
}

/// C15-K1 (1-byte Copy elements: no clone_fn, no drop_fn): memcpy paths of extend and the
/// 8-element minimum capacity.
#[kani::proof]
#[kani::unwind(6)]
fn c15_k1_rawlist_u8_history() {
    let vt = VTable::new(1, 1, None, None, eq_bytes1);
    let mut l = RawList::new(vt.clone());
    let n: usize = kani::any();
    kani::assume(n <= 3);
    let vals: [u8; 3] = kani::any();
    let mut i = 0;
    while i < n {
        let mut v = vals[i];
        unsafe { l.push(NonNull::from_mut(&mut v).cast::<()>()) };
        i += 1;
    }
    assert!(rep_ok(&l) && l.len() == n && (n == 0 || l.capacity() == 8), "OBL:C15.rawlist.u8_len_and_min_capacity");
    let mut c = RawList::new(vt);
    unsafe { c.extend(&l) };
    unsafe { c.extend(&l) };
    assert!(c.len() == 2 * n && l.len() == n, "OBL:C15.rawlist.u8_extend_twice_len");
    let j: usize = kani::any();
    kani::assume(j < 6);
    let got = c.get(j).map(|p| unsafe { *(p.as_ptr() as *const u8) });
    if j < 2 * n {
        assert!(got == Some(vals[j % n]), "OBL:C15.rawlist.u8_concat_order");
    } else {
        assert!(got.is_none(), "OBL:C15.rawlist.u8_out_of_range_none");
    }
    let mut probe = vals[0];
    let found = unsafe { l.contains(NonNull::from_mut(&mut probe).cast::<()>()) };
    let idx = unsafe { l.index(NonNull::from_mut(&mut probe).cast::<()>()) };
    assert!(found == (n > 0) && idx == if n > 0 { Some(0) } else { None }, "OBL:C15.rawlist.u8_contains_and_index_of_first");
    kani::cover!(n == 3 && j == 4, "COV:C15.rawlist.u8_second_copy_reached");
}

#[kani::proof]
#[kani::unwind(5)]
fn canary_c15_k1_rawlist() {
    let vt = VTable::new(8, 8, None, None, eq_bytes8);
    let mut l = RawList::new(vt);
    let mut v: u64 = kani::any();
    unsafe { l.push(NonNull::from_mut(&mut v).cast::<()>()) };
    assert!(read8(&l, 0) != Some(v), "CANARY:C15.rawlist.get_returns_pushed_value");
}
