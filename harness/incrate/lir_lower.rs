//! C01-U1 / C01-U2: binop_to_int_cmp, binop_to_float_cmp (src/lir/lower.rs, private fns).
//! Contract from the property statement: "comparisons that respect the signedness of the
//! operand type" - the LIR comparison chosen for (operator, signedness) must *mean* the source
//! operator on that type, for every pair of operand bit patterns.
use super::*;

fn any_binop() -> ast::BinOp {
    let k: u8 = kani::any();
    kani::assume(k < 13);
    match k {
        0 => ast::BinOp::And,
        1 => ast::BinOp::Or,
        2 => ast::BinOp::Eq,
        3 => ast::BinOp::Ne,
        4 => ast::BinOp::Lt,
        5 => ast::BinOp::Le,
        6 => ast::BinOp::Gt,
        7 => ast::BinOp::Ge,
        8 => ast::BinOp::Add,
        9 => ast::BinOp::Sub,
        10 => ast::BinOp::Mul,
        11 => ast::BinOp::Div,
        _ => ast::BinOp::Mod,
    }
}

/// meaning of a LIR integer comparison on two 64-bit patterns (U* unsigned order, S* two's
/// complement order) - the meaning C01-U3 proves the code generator gives to each variant
fn sem_intcmp(c: &IntCmp, a: u64, b: u64) -> bool {
    let (sa, sb) = (a as i64, b as i64);
    match c {
        IntCmp::Eq => a == b,
        IntCmp::Ne => a != b,
        IntCmp::ULt => a < b,
        IntCmp::ULe => a <= b,
        IntCmp::UGt => a > b,
        IntCmp::UGe => a >= b,
        IntCmp::SLt => sa < sb,
        IntCmp::SLe => sa <= sb,
        IntCmp::SGt => sa > sb,
        IntCmp::SGe => sa >= sb,
    }
}

/// the language's meaning of a comparison operator on an integer type of the given signedness
fn lang_cmp(op: ast::BinOp, signed: bool, a: u64, b: u64) -> Option<bool> {
    let ord = if signed { (a as i64).cmp(&(b as i64)) } else { a.cmp(&b) };
    use std::cmp::Ordering::*;
    Some(match op {
        ast::BinOp::Eq => ord == Equal,
        ast::BinOp::Ne => ord != Equal,
        ast::BinOp::Lt => ord == Less,
        ast::BinOp::Le => ord != Greater,
        ast::BinOp::Gt => ord == Greater,
        ast::BinOp::Ge => ord != Less,
        _ => return None,
    })
}

#[kani::proof]
fn c01_u1_binop_to_int_cmp() {
    let op = any_binop();
    let signed: bool = kani::any();
    let kind = if signed { IntKind::Signed } else { IntKind::Unsigned };
    let (a, b): (u64, u64) = (kani::any(), kani::any());
    let got = binop_to_int_cmp(&op, kind);
    let want = lang_cmp(op, signed, a, b);
    assert!(got.is_some() == want.is_some(), "OBL:C01.lir.int_cmp.defined_exactly_for_comparison_operators");
    if let (Some(c), Some(w)) = (&got, want) {
        assert!(sem_intcmp(c, a, b) == w, "OBL:C01.lir.int_cmp.means_the_operator_at_the_operand_signedness");
    }
    kani::cover!(got.is_some() && !signed && (a as i64) < 0 && (b as i64) >= 0, "COV:C01.lir.int_cmp.sign_bit_case_reached");
}

#[kani::proof]
fn canary_c01_u1_binop_to_int_cmp() {
    let (a, b): (u64, u64) = (kani::any(), kani::any());
    let got = binop_to_int_cmp(&ast::BinOp::Ge, IntKind::Unsigned).unwrap();
    assert!(sem_intcmp(&got, a, b) != (a >= b), "CANARY:C01.lir.int_cmp.means_the_operator");
}

#[kani::proof]
fn c01_u2_binop_to_float_cmp() {
    let op = any_binop();
    let got = binop_to_float_cmp(&op);
    let ok = match (op, &got) {
        (ast::BinOp::Eq, Some(FloatCmp::Eq)) => true,
        (ast::BinOp::Ne, Some(FloatCmp::Ne)) => true,
        (ast::BinOp::Lt, Some(FloatCmp::Lt)) => true,
        (ast::BinOp::Le, Some(FloatCmp::Le)) => true,
        (ast::BinOp::Gt, Some(FloatCmp::Gt)) => true,
        (ast::BinOp::Ge, Some(FloatCmp::Ge)) => true,
        (ast::BinOp::Eq | ast::BinOp::Ne | ast::BinOp::Lt | ast::BinOp::Le | ast::BinOp::Gt | ast::BinOp::Ge, _) => false,
        (_, None) => true,
        (_, Some(_)) => false,
    };
    assert!(ok, "OBL:C01.lir.float_cmp.same_named_ieee_comparison_iff_comparison_operator");
    kani::cover!(got.is_some(), "COV:C01.lir.float_cmp.some_reached");
}
