//! C06-U1/U2/U3, C09-U5: src/parser/lexer.rs — the recognisers that do byte/char arithmetic.
//! Child module of parser::lexer (the recognisers and the Lexer fields are private).
//!
//! Contract per recogniser, from C06 ("never panics ... every location it cites lies inside the
//! cited file on character boundaries") and C09 ("no source byte is lost or invented"):
//!   no panic; on a token: span.start <= span.end <= len, both on char boundaries, the token text
//!   is exactly input[span], the remaining input is the suffix after the token;
//!   on "no match": the input is untouched.
//! Inputs: every valid UTF-8 string of at most N bytes (bounded; N is in the harness name).
use super::*;

/// every valid UTF-8 string of <= N bytes
fn any_str<const N: usize>(buf: &mut [u8; N]) -> &str {
    *buf = kani::any();
    let len: usize = kani::any();
    kani::assume(len <= N);
    match core::str::from_utf8(&buf[..len]) {
        Ok(s) => s,
        Err(_) => {
            kani::assume(false);
            ""
        }
    }
}

/// over-approximation of the Unicode XID tables: any answer (sound for these clauses)
fn any_bool_for_char(_c: char) -> bool {
    kani::any()
}

fn on_boundaries(s: &str, r: &Range<usize>) -> bool {
    r.start <= r.end
        && r.end <= s.len()
        && s.is_char_boundary(r.start)
        && s.is_char_boundary(r.end)
}

fn token_text<'a>(t: &Token<'a>) -> Option<&'a str> {
    Some(match t {
        Token::Ident(x) => x,
        Token::Integer(a, _) => a,
        Token::Float(a, _) => a,
        Token::Hex(x)
        | Token::Asn(x)
        | Token::IpV4(x)
        | Token::IpV6(x)
        | Token::String(x)
        | Token::Char(x) => x,
        _ => return None,
    })
}

/// the common postcondition of a recogniser called on a fresh lexer over `s`
fn check(s: &str, l: &Lexer<'_>, r: ControlFlow<(Token<'_>, Range<usize>)>) {
    match r {
        ControlFlow::Continue(()) => {
            assert!(
                l.input.len() == s.len(),
                "OBL:C06.lexer.no_match_leaves_input_untouched"
            );
        }
        ControlFlow::Break((tok, span)) => {
            assert!(
                on_boundaries(s, &span),
                "OBL:C06.lexer.span_in_file_on_char_boundaries"
            );
            assert!(
                l.input.len() == s.len() - span.end,
                "OBL:C06.lexer.rest_is_suffix_after_token"
            );
            assert!(
                span.end > span.start,
                "OBL:C06.lexer.token_is_not_empty"
            );
            // the token text is the very bytes of the source the span names (pointer identity,
            // no re-slicing: slicing would itself panic off a boundary and hide the verdict)
            let base = s.as_ptr() as usize + span.start;
            let len = span.end - span.start;
            let ok = match &tok {
                // number tokens split their text into digits and suffix
                Token::Integer(a, b) | Token::Float(a, b) => {
                    a.as_ptr() as usize == base
                        && a.len() + b.len() == len
                        && (b.is_empty()
                            || b.as_ptr() as usize == base + a.len())
                }
                _ => match token_text(&tok) {
                    Some(text) => {
                        text.as_ptr() as usize == base && text.len() == len
                    }
                    None => true,
                },
            };
            assert!(
                ok,
                "OBL:C09.lexer.token_text_is_exactly_the_source_bytes"
            );
            // what Parser::simple_literal relies on when it strips the quotes with `&s[1..s.len() - 1]`
            let quoted = |x: &str, q: u8| {
                x.len() >= 2
                    && x.as_bytes()[0] == q
                    && x.as_bytes()[x.len() - 1] == q
            };
            match &tok {
                Token::String(x) => assert!(
                    quoted(x, b'"'),
                    "OBL:C06.lexer.string_token_includes_both_quotes"
                ),
                Token::Char(x) => assert!(
                    quoted(x, b'\''),
                    "OBL:C06.lexer.char_token_includes_both_quotes"
                ),
                _ => {}
            }
        }
    }
}

/// record_almost_keyword only stores a "did you mean" hint for diagnostics (and interns a symbol)
fn no_hint<'s>(_l: &mut Lexer<'s>, _x: &str, _span: Range<usize>)
where
    's: 's,
{
}

macro_rules! recogniser {
    ($name:ident, $method:ident, $n:expr, $unwind:expr) => {
        recogniser!($name, $method, $n, $unwind, true);
    };
    ($name:ident, $method:ident, $n:expr, $unwind:expr, $can_match:expr) => {
        #[kani::proof]
        #[kani::unwind($unwind)]
        #[kani::stub(unicode_ident::is_xid_start, any_bool_for_char)]
        #[kani::stub(unicode_ident::is_xid_continue, any_bool_for_char)]
        #[kani::stub(Lexer::record_almost_keyword, no_hint)]
        fn $name() {
            let mut buf = [0u8; $n];
            let s = any_str::<$n>(&mut buf);
            let mut l = Lexer::new(s);
            let r = l.$method();
            let matched = matches!(r, ControlFlow::Break(_));
            check(s, &l, r);
            kani::cover!(
                matched || !$can_match,
                "COV:C06.lexer.recogniser_matched"
            );
            kani::cover!(
                !s.is_ascii() && s.len() == $n,
                "COV:C06.lexer.multibyte_input_reached"
            );
        }
    };
}

recogniser!(c06_u1_keyword_or_ident_n2, keyword_or_ident, 2, 4);
recogniser!(c06_u1_number_n2, number, 2, 4);
recogniser!(c06_u1_two_char_punctuation_n2, two_char_punctuation, 2, 4);
recogniser!(c06_u1_one_char_punctuation_n2, one_char_punctuation, 2, 4);
recogniser!(c06_u1_hex_number_n3, hex_number, 3, 5);
recogniser!(c06_u1_as_number_n3, as_number, 3, 5);
recogniser!(c06_u1_f_string_n2, f_string, 2, 4);
recogniser!(c06_u1_string_n3, string, 3, 5);
recogniser!(c06_u1_char_n3, char, 3, 5);
recogniser!(c06_u1_ipv4_n3, ipv4, 3, 5, false); // an IPv4 literal needs at least 6 bytes
recogniser!(c06_u1_ipv6_n3, ipv6, 3, 5);
recogniser!(c06_u1_keyword_or_ident_n3, keyword_or_ident, 3, 5);
recogniser!(c06_u1_number_n3, number, 3, 5);

/// skip_whitespace: no panic, only removes a prefix.
#[kani::proof]
#[kani::unwind(5)]
fn c06_u1_skip_whitespace_n3() {
    let mut buf = [0u8; 3];
    let s = any_str::<3>(&mut buf);
    let mut l = Lexer::new(s);
    l.skip_whitespace();
    let consumed = s.len() - l.input.len();
    assert!(
        consumed <= s.len() && s.is_char_boundary(consumed),
        "OBL:C06.lexer.skip_whitespace_removes_a_prefix_on_a_boundary"
    );
    kani::cover!(consumed > 0, "COV:C06.lexer.whitespace_skipped");
}

/// f_string_part (C06-U1 + C09-U5): no panic; a returned part is exactly the source text up to
/// the delimiter, the delimiter `"` is consumed, the delimiter `{` is not.
macro_rules! fstring_part {
    ($name:ident, $n:expr, $unwind:expr) => {
        #[kani::proof]
        #[kani::unwind($unwind)]
        fn $name() {
            let mut buf = [0u8; $n];
            let s = any_str::<$n>(&mut buf);
            let mut l = Lexer::new(s);
            match l.f_string_part() {
                None => {}
                Some((tok, span)) => {
                    assert!(on_boundaries(s, &span) && span.start == 0, "OBL:C06.lexer.fstring_part_span_on_char_boundaries");
                    let (base, len) = (s.as_ptr() as usize + span.start, span.end - span.start);
                    match tok {
                        FStringToken::StringEnd(t) => {
                            assert!(t.len() == len && t.as_ptr() as usize == base, "OBL:C09.lexer.fstring_end_text_is_exactly_the_source");
                            assert!(s.as_bytes()[span.end] == b'"', "OBL:C09.lexer.fstring_end_stops_at_the_quote");
                            assert!(l.input.len() == s.len() - span.end - 1, "OBL:C06.lexer.fstring_end_consumes_the_quote_only");
                        }
                        FStringToken::StringIntermediate(t) => {
                            assert!(t.len() == len && t.as_ptr() as usize == base, "OBL:C09.lexer.fstring_part_text_is_exactly_the_source");
                            assert!(s.as_bytes()[span.end] == b'{', "OBL:C09.lexer.fstring_part_stops_before_the_brace");
                            assert!(l.input.len() == s.len() - span.end, "OBL:C06.lexer.fstring_part_leaves_the_brace");
                        }
                    }
                }
            }
            kani::cover!(!s.is_ascii() && s.len() == $n, "COV:C06.lexer.fstring_multibyte_input_reached");
        }
    };
}
fstring_part!(c06_u1_f_string_part_n3, 3, 5);
fstring_part!(c06_u1_f_string_part_n4, 4, 6);

/// bump (C06-U2): requires n <= len on a char boundary; ensures the returned text/range.
#[kani::proof]
#[kani::unwind(5)]
fn c06_u2_bump_n3() {
    let mut buf = [0u8; 3];
    let s = any_str::<3>(&mut buf);
    let n: usize = kani::any();
    kani::assume(n <= s.len() && s.is_char_boundary(n));
    let mut l = Lexer::new(s);
    let (a, r) = l.bump(n);
    assert!(
        r.start == 0
            && r.end == n
            && a.len() == n
            && l.input.len() == s.len() - n,
        "OBL:C06.lexer.bump_returns_prefix_and_range"
    );
    let m: usize = kani::any();
    kani::assume(m <= l.input.len() && l.input.is_char_boundary(m));
    let (_b, r2) = l.bump(m);
    assert!(
        r2.start == n && r2.end == n + m,
        "OBL:C06.lexer.bump_ranges_are_relative_to_the_file"
    );
    kani::cover!(n > 0 && m > 0, "COV:C06.lexer.two_bumps_reached");
}

/// model of "no recogniser matched": input untouched
fn no_recogniser_matched<'s>(
    _l: &mut Lexer<'s>,
) -> ControlFlow<(Token<'s>, Range<usize>)>
where
    's: 's,
{
    ControlFlow::Continue(())
}

/// next_inner (C06-U3): when nothing matches a non-empty input, the error span it cites lies in
/// the file, on character boundaries, and is not empty (so token loops make progress).
#[kani::proof]
#[kani::unwind(6)]
#[kani::stub(Lexer::next_token, no_recogniser_matched)]
fn c06_u3_next_inner_error_span_n4() {
    let mut buf = [0u8; 4];
    let s = any_str::<4>(&mut buf);
    let k: usize = kani::any();
    kani::assume(k <= s.len() && s.is_char_boundary(k));
    let mut l = Lexer::new(s);
    l.bump(k);
    match l.next_inner() {
        None => assert!(
            k == s.len(),
            "OBL:C06.lexer.next_inner_none_only_at_end_of_input"
        ),
        Some((res, span)) => {
            assert!(
                res.is_err(),
                "OBL:C06.lexer.next_inner_reports_an_error_token"
            );
            assert!(
                span.start == k && span.end > span.start,
                "OBL:C06.lexer.error_span_starts_here_and_is_not_empty"
            );
            assert!(
                on_boundaries(s, &span),
                "OBL:C06.lexer.error_span_in_file_on_char_boundaries"
            );
        }
    }
    kani::cover!(
        !s.is_ascii() && k < s.len(),
        "COV:C06.lexer.error_at_multibyte_char_reached"
    );
}

#[kani::proof]
#[kani::unwind(4)]
fn canary_c06_u1_one_char_punctuation() {
    let mut buf = [0u8; 2];
    let s = any_str::<2>(&mut buf);
    let mut l = Lexer::new(s);
    let r = l.one_char_punctuation();
    assert!(
        !matches!(r, ControlFlow::Break(_)),
        "CANARY:C06.lexer.recogniser_matched"
    );
}

// ---------------------------------------------------------------------------------------------
// C09: "Identifiers may be any XID_Start (or _) followed by XID_Continue". The Unicode tables are
// replaced by a table that is EXACT on ASCII and, for the one non-ASCII character of the input, an
// arbitrary but consistent pair of answers with XID_Start => XID_Continue (true of the real tables).
// The identifier recognised in "x<c>" must then extend over <c> exactly when <c> is XID_Continue.
static mut XID_C: char = 'a';
static mut XID_C_START: bool = false;
static mut XID_C_CONTINUE: bool = false;

fn table_xid_start(ch: char) -> bool {
    if ch.is_ascii() {
        ch.is_ascii_alphabetic()
    } else if ch == unsafe { XID_C } {
        unsafe { XID_C_START }
    } else {
        false
    }
}
fn table_xid_continue(ch: char) -> bool {
    if ch.is_ascii() {
        ch.is_ascii_alphanumeric() || ch == '_'
    } else if ch == unsafe { XID_C } {
        unsafe { XID_C_CONTINUE }
    } else {
        false
    }
}

#[kani::proof]
#[kani::unwind(7)]
#[kani::stub(unicode_ident::is_xid_start, table_xid_start)]
#[kani::stub(unicode_ident::is_xid_continue, table_xid_continue)]
#[kani::stub(Lexer::record_almost_keyword, no_hint)]
fn c09_u7_identifier_extends_over_xid_continue() {
    let c: char = kani::any();
    let (st, co): (bool, bool) = (kani::any(), kani::any());
    kani::assume(!st || co);
    unsafe {
        XID_C = c;
        XID_C_START = st;
        XID_C_CONTINUE = co;
    }
    let mut buf = [0u8; 5];
    buf[0] = b'x';
    let n = c.encode_utf8(&mut buf[1..]).len();
    let s = match core::str::from_utf8(&buf[..1 + n]) {
        Ok(s) => s,
        Err(_) => {
            kani::assume(false);
            ""
        }
    };
    let mut l = Lexer::new(s);
    let r = l.keyword_or_ident();
    let want = if table_xid_continue(c) { 1 + n } else { 1 };
    match r {
        ControlFlow::Break((_tok, span)) => {
            assert!(
                span.start == 0 && span.end == want,
                "OBL:C09.lexer.identifier_is_xid_start_followed_by_all_xid_continue_characters"
            );
        }
        ControlFlow::Continue(()) => {
            assert!(false, "OBL:C09.lexer.identifier_is_xid_start_followed_by_all_xid_continue_characters");
        }
    }
    kani::cover!(!c.is_ascii() && co && !st, "COV:C09.lexer.non_ascii_continue_only_character_reached");
    kani::cover!(c.is_ascii_digit(), "COV:C09.lexer.digit_reached");
}
