//! Replay of verifier counterexamples on the REAL code through roto's public API
//! (plus the cfg(roto_verif) evaluator hook). Always run in a child process by ./check:
//! a trap or abort of this process is the observation.
//!
//! verif_replay jit  <ty> <ret> <script-file> <arg>...   compile with the real pipeline + JIT, call pkg.main
//! verif_replay eval <ty> <ret> <script-file> <arg>...   same script through the LIR evaluator (hook)
//! verif_replay compile <script-file>                    compile only: prints OK or the rendered report
//! verif_replay listeq                                   List == List on two distinct equal lists
//!   <ty>  : u8 u16 u32 u64 i8 i16 i32 i64 bool   (type of every argument)
//!   <ret> : same set                              (return type)
use roto::{FileTree, Runtime};
use std::process::ExitCode;

fn tree(path: &str) -> FileTree {
    let src = std::fs::read_to_string(path).expect("cannot read script");
    FileTree::test_file(path, &src, 0)
}

macro_rules! call_jit {
    ($pkg:expr, $args:expr, $t:ty, $r:ty) => {{
        let a: Vec<$t> = $args.iter().map(|s| parse::<$t>(s)).collect();
        match a.len() {
            1 => {
                let f = $pkg.get_function::<fn($t) -> $r>("main").map_err(|e| e.to_string())?;
                format!("{:?}", f.call(a[0]))
            }
            2 => {
                let f = $pkg.get_function::<fn($t, $t) -> $r>("main").map_err(|e| e.to_string())?;
                format!("{:?}", f.call(a[0], a[1]))
            }
            3 => {
                let f = $pkg.get_function::<fn($t, $t, $t) -> $r>("main").map_err(|e| e.to_string())?;
                format!("{:?}", f.call(a[0], a[1], a[2]))
            }
            _ => return Err("unsupported arity".into()),
        }
    }};
}

trait P: Sized {
    fn p(s: &str) -> Self;
}
macro_rules! impl_p {
    ($($t:ty),*) => {$(impl P for $t { fn p(s: &str) -> Self { s.parse::<$t>().expect("bad argument") } })*};
}
impl_p!(u8, u16, u32, u64, i8, i16, i32, i64, bool);
fn parse<T: P>(s: &str) -> T {
    T::p(s)
}

macro_rules! dispatch_ret {
    ($pkg:expr, $args:expr, $t:ty, $ret:expr) => {
        match $ret {
            "u8" => call_jit!($pkg, $args, $t, u8),
            "u16" => call_jit!($pkg, $args, $t, u16),
            "u32" => call_jit!($pkg, $args, $t, u32),
            "u64" => call_jit!($pkg, $args, $t, u64),
            "i8" => call_jit!($pkg, $args, $t, i8),
            "i16" => call_jit!($pkg, $args, $t, i16),
            "i32" => call_jit!($pkg, $args, $t, i32),
            "i64" => call_jit!($pkg, $args, $t, i64),
            "bool" => call_jit!($pkg, $args, $t, bool),
            _ => return Err("unsupported return type".into()),
        }
    };
}

fn jit(ty: &str, ret: &str, path: &str, args: &[String]) -> Result<String, String> {
    let rt = Runtime::new();
    let mut pkg = tree(path).compile(&rt).map_err(|e| format!("COMPILE-ERROR\n{e}"))?;
    Ok(match ty {
        "u8" => dispatch_ret!(pkg, args, u8, ret),
        "u16" => dispatch_ret!(pkg, args, u16, ret),
        "u32" => dispatch_ret!(pkg, args, u32, ret),
        "u64" => dispatch_ret!(pkg, args, u64, ret),
        "i8" => dispatch_ret!(pkg, args, i8, ret),
        "i16" => dispatch_ret!(pkg, args, i16, ret),
        "i32" => dispatch_ret!(pkg, args, i32, ret),
        "i64" => dispatch_ret!(pkg, args, i64, ret),
        "bool" => dispatch_ret!(pkg, args, bool, ret),
        _ => return Err("unsupported argument type".into()),
    })
}

#[cfg(roto_verif)]
fn eval(ty: &str, _ret: &str, path: &str, args: &[String]) -> Result<String, String> {
    use roto::verif_hooks::{eval_main, Scalar};
    let rt = Runtime::new();
    let a: Vec<Scalar> = args
        .iter()
        .map(|s| match ty {
            "u8" => Scalar::U8(parse(s)),
            "u16" => Scalar::U16(parse(s)),
            "u32" => Scalar::U32(parse(s)),
            "u64" => Scalar::U64(parse(s)),
            "i8" => Scalar::I8(parse(s)),
            "i16" => Scalar::I16(parse(s)),
            "i32" => Scalar::I32(parse(s)),
            "i64" => Scalar::I64(parse(s)),
            "bool" => Scalar::Bool(parse(s)),
            _ => panic!("unsupported argument type"),
        })
        .collect();
    let r = eval_main(tree(path), &rt, &a)?;
    Ok(match r {
        Some(Scalar::Bool(x)) => format!("{x:?}"),
        Some(Scalar::U8(x)) => format!("{x:?}"),
        Some(Scalar::U16(x)) => format!("{x:?}"),
        Some(Scalar::U32(x)) => format!("{x:?}"),
        Some(Scalar::U64(x)) => format!("{x:?}"),
        Some(Scalar::I8(x)) => format!("{x:?}"),
        Some(Scalar::I16(x)) => format!("{x:?}"),
        Some(Scalar::I32(x)) => format!("{x:?}"),
        Some(Scalar::I64(x)) => format!("{x:?}"),
        Some(Scalar::F32(x)) => format!("{x:?}"),
        Some(Scalar::F64(x)) => format!("{x:?}"),
        None => "none".into(),
    })
}

#[cfg(not(roto_verif))]
fn eval(_ty: &str, _ret: &str, _path: &str, _args: &[String]) -> Result<String, String> {
    Err("built without --cfg roto_verif".into())
}

fn main() -> ExitCode {
    let a: Vec<String> = std::env::args().collect();
    let r = match a.get(1).map(|s| s.as_str()) {
        Some("jit") if a.len() >= 5 => jit(&a[2], &a[3], &a[4], &a[5..]),
        Some("eval") if a.len() >= 5 => eval(&a[2], &a[3], &a[4], &a[5..]),
        Some("compile") if a.len() >= 3 => {
            let rt = Runtime::new();
            match tree(&a[2]).compile(&rt) {
                Ok(_) => Ok("OK".to_string()),
                Err(e) => {
                    // rendering the report is part of the property (C06)
                    Ok(format!("REPORT\n{e}"))
                }
            }
        }
        Some("usepath") => {
            // `use a.b.f;` at the top level, where f lives in module b inside module a (C18)
            let lib = roto::library! {
                mod a {
                    mod b {
                        fn f() -> u32 { 7 }
                    }
                }
                use a::b::f;
            };
            match Runtime::from_lib(lib) {
                Err(e) => Ok(format!("registration-error: {e}")),
                Ok(rt) => {
                    let path = a.get(2).cloned().unwrap_or_default();
                    match tree(&path).compile(&rt) {
                        Err(e) => Ok(format!("registered, but script does not compile:\n{e}")),
                        Ok(mut pkg) => match pkg.get_function::<fn() -> u32>("main") {
                            Ok(f) => Ok(format!("{:?}", f.call())),
                            Err(e) => Err(e.to_string()),
                        },
                    }
                }
            }
        }
        Some("emptyuse") => {
            // a use declaration with an empty path must be a registration error, not a panic (C18)
            let u = roto::Use::new(vec![vec![]], roto::location!());
            let mut lib = roto::Library::new();
            lib.add(u.into());
            match Runtime::from_lib(lib) {
                Err(e) => Ok(format!("registration-error: {e}")),
                Ok(_) => Ok("registered".to_string()),
            }
        }
        Some("listeq") => {
            let x = roto::List::<i32>::from([1, 2, 3]);
            let y = roto::List::<i32>::from([1, 2, 3]);
            Ok(format!("{:?}", x == y))
        }
        _ => Err("usage: verif_replay jit|eval <ty> <ret> <script> <args..> | compile <script> | listeq".into()),
    };
    match r {
        Ok(s) => {
            println!("RESULT {s}");
            ExitCode::SUCCESS
        }
        Err(e) => {
            println!("ERROR {e}");
            ExitCode::from(3)
        }
    }
}
